// dsim core: token passing over real pthreads, seeded strategies, decision record/replay,
// interposed pthread/clock/signal primitives, x86-TSO store-buffer fault model.
#include <pthread.h>
#include <dlfcn.h>
#include <signal.h>
#include <time.h>
#include <sched.h>
#include <errno.h>
#include <unistd.h>
#include <linux/futex.h>
#include <sys/syscall.h>
#include <atomic>
#include <cstdio>
#include <cstdlib>
#include <cstring>
#include "dsim.h"

namespace dsim {
extern thread_local int t_bypass;          // arena.cpp: >0 = this thread's allocations go to the real heap
extern thread_local bool t_sim;            // arena.cpp: this thread is a simulated thread
void arena_begin_run(bool enabled, int delay);
void arena_end_run();
void arena_stats(uint64_t* allocs, uint64_t* live, uint64_t* peak);

enum State { RUNNABLE, BLK_MUTEX, BLK_COND, BLK_JOIN, BLK_BARRIER, SLEEPING, FINISHED };
static const int MAXT = 48, MAXSB = 8, MAXSIG = 8, SPIN_T = 4;

struct SB { const void* addr; unsigned size; unsigned char oldv[16]; uint64_t born; uint64_t resid; };
struct PSig { int sig; uint64_t due; };
struct Thr {
    int id; std::atomic<int> go; std::atomic<int> exiting; State st; const void* obj;
    uint64_t deadline; bool has_deadline, timed_out, in_handler, in_sched, is_client, exit_flag, started;
    SB sb[MAXSB]; int nsb;
    PSig sigs[MAXSIG]; int nsigs;
    int spin; unsigned hints, ro_streak; int casfail_streak;
    pthread_t real, joiner; void* (*fn)(void*); void* arg;
    int op, ord, opcount; uint64_t phase_points; long prio; uint64_t last_run; int client_ord;
};
struct Mtx { const void* key; Thr* owner; int count; unsigned gen; };

static Thr g_pool[MAXT]; static int g_nthr; static Thr* g_cur; static volatile bool g_active;
static thread_local Thr* self;
static Params P; static Stats ST; static fatal_fn g_fatal;
static bool g_seq, g_faults, g_fair, g_record, g_unint;
static uint64_t g_rng, g_frng; static uint64_t g_now;
static const int MTXN = 1 << 16; static Mtx g_mtx[MTXN]; static unsigned g_mtx_gen = 1;
static struct sigaction g_handlers[65]; static bool g_has_handler[65]; static bool g_any_handler;
static const size_t MAXDEC = 1u << 18; static Dec* g_dec; static size_t g_ndec; static bool g_dec_overflow;
// replay script hash table
static uint64_t* g_skeys; static long* g_svals; static size_t g_smask;
// strategy state
static long g_prio_low; static uint64_t g_pct_change[8]; static int g_pct_n;
static int g_pre1_state; static Thr* g_pre1_home; static Thr* g_pre1_guest; static int g_pre1_guest_ops; static uint64_t g_pre1_until;
static bool g_stall_on; static uint64_t g_stall_until; static bool g_stall_done;
static int g_fair_left; static int g_live_clients; static int g_next_client_ord;
static struct { int id, parties, arrived; } g_bar[8];
// event ring for diagnostics
struct Ev { uint64_t step; int tid, kind; const void* addr; };
static const int EVN = 1 << 12; static Ev g_ev[EVN];

static inline uint64_t xs(uint64_t& s) { s ^= s << 13; s ^= s >> 7; s ^= s << 17; return s; }
static inline uint64_t rnd() { return xs(g_rng); }
static inline uint64_t frnd() { return xs(g_frng); }

static void fwait(std::atomic<int>* a) {
    while (a->load(std::memory_order_acquire) == 0) syscall(SYS_futex, (int*)a, FUTEX_WAIT_PRIVATE, 0, nullptr, nullptr, 0);
    a->store(0, std::memory_order_relaxed);
}
static void fwake(std::atomic<int>* a) { a->store(1, std::memory_order_release); syscall(SYS_futex, (int*)a, FUTEX_WAKE_PRIVATE, 1, nullptr, nullptr, 0); }

[[noreturn]] static void fatal(const char* cls, const char* detail) {
    if (g_fatal) g_fatal(cls, detail);
    fprintf(stderr, "DSIM FATAL %s: %s\n", cls, detail);
    _exit(3);
}

// ---------------------------------------------------------------- decisions
static inline uint64_t dkey(int tid, int op, int ord, int kind) {
    return ((uint64_t)(unsigned)(kind & 15) << 60) | ((uint64_t)(unsigned)(tid & 255) << 52) | ((uint64_t)(unsigned)((op + 16) & 0xFFFFF) << 32) | (uint32_t)ord;
}
static void log_dec(int tid, int op, int ord, int kind, long val) {
    if (g_ndec >= MAXDEC) { g_dec_overflow = true; return; }
    Dec& d = g_dec[g_ndec++]; d.tid = tid; d.op = op; d.ord = ord; d.kind = kind; d.val = val;
}
static bool script_get(int tid, int op, int ord, int kind, long* val) {
    if (!g_skeys) return false;
    uint64_t k = dkey(tid, op, ord, kind); size_t i = (size_t)((k * 0x9E3779B97F4A7C15ULL) >> 20) & g_smask;
    while (g_skeys[i]) { if (g_skeys[i] == k) { *val = g_svals[i]; return true; } i = (i + 1) & g_smask; }
    return false;
}
static void script_build(const std::vector<Dec>& s) {
    size_t n = 16; while (n < s.size() * 2 + 2) n <<= 1;
    ++t_bypass; g_skeys = (uint64_t*)calloc(n, sizeof(uint64_t)); g_svals = (long*)calloc(n, sizeof(long)); --t_bypass;
    g_smask = n - 1;
    for (const Dec& d : s) {
        uint64_t k = dkey(d.tid, d.op, d.ord, d.kind); size_t i = (size_t)((k * 0x9E3779B97F4A7C15ULL) >> 20) & g_smask;
        while (g_skeys[i] && g_skeys[i] != k) i = (i + 1) & g_smask;
        g_skeys[i] = k; g_svals[i] = d.val;
    }
}
// A fault-type decision at the current coordinate of thread t: returns the value (0 = not fired).
static long fault_decide(Thr* t, int kind, int permille, long val_if_fired) {
    if (g_record) {
        if (!g_faults || g_seq || g_fair || permille <= 0) return 0;
        if ((int)(frnd() % 1000) >= permille) return 0;
        log_dec(t->id, t->op, t->ord, kind, val_if_fired);
        return val_if_fired;
    }
    long v = 0;
    if (script_get(t->id, t->op, t->ord, kind, &v) && v) { log_dec(t->id, t->op, t->ord, kind, v); return v; }
    return 0;
}

// ---------------------------------------------------------------- TSO store buffer (fault F2)
static void sb_drain_upto(Thr* t, int n) {   // drain the n oldest entries
    if (n >= t->nsb) { t->nsb = 0; return; }
    memmove(&t->sb[0], &t->sb[n], sizeof(SB) * (t->nsb - n)); t->nsb -= n;
}
static void sb_tick() {
    for (int i = 0; i < g_nthr; i++) { Thr* t = &g_pool[i]; while (t->nsb && ST.steps - t->sb[0].born > t->sb[0].resid) sb_drain_upto(t, 1); }
}
static void sb_drain_addr_foreign(const void* addr) {
    for (int i = 0; i < g_nthr; i++) { Thr* t = &g_pool[i]; if (t == self) continue; for (int j = t->nsb; j-- > 0;) if (t->sb[j].addr == addr) { sb_drain_upto(t, j + 1); break; } }
}
void tso_drain_range(const void* p, size_t n) {   // called by the arena when a block is freed
    if (!g_active) return;
    const char* lo = (const char*)p; const char* hi = lo + n;
    for (int i = 0; i < g_nthr; i++) { Thr* t = &g_pool[i]; for (int j = t->nsb; j-- > 0;) { const char* a = (const char*)t->sb[j].addr; if (a >= lo && a < hi) { sb_drain_upto(t, j + 1); break; } } }
}
void drain_self() { if (self) self->nsb = 0; }

// ---------------------------------------------------------------- scheduling
static bool sig_due(Thr* t) { if (!g_any_handler || t->in_handler) return false; for (int i = 0; i < t->nsigs; i++) if (t->sigs[i].due <= ST.steps) return true; return false; }
static bool frozen(Thr* t) { return g_stall_on && t->client_ord == P.stall_victim; }
static bool can_run(Thr* t) { return t->st == RUNNABLE || (t->st != FINISHED && (t->in_handler || sig_due(t))); }

static bool run_signals() {
    Thr* s = self; bool ran = false;
    while (s && !s->in_handler) {
        int k = -1; for (int i = 0; i < s->nsigs; i++) if (s->sigs[i].due <= ST.steps) { k = i; break; }
        if (k < 0) break;
        int sg = s->sigs[k].sig; memmove(&s->sigs[k], &s->sigs[k + 1], sizeof(PSig) * (s->nsigs - k - 1)); --s->nsigs;
        if (sg < 1 || sg > 64 || !g_has_handler[sg]) continue;
        s->in_handler = true; ran = true; ++ST.signals; s->nsb = 0;   // interrupt delivery serialises
        siginfo_t si; memset(&si, 0, sizeof si); si.si_signo = sg;
        struct sigaction& sa = g_handlers[sg];
        if (sa.sa_flags & SA_SIGINFO) sa.sa_sigaction(sg, &si, nullptr); else sa.sa_handler(sg);
        s->in_handler = false;
    }
    return ran;
}

static void switch_to(Thr* t) {
    Thr* s = self; if (t == s) return;
    ++ST.switches; g_cur = t; t->last_run = ST.steps;
    fwake(&t->go); fwait(&s->go);
}

// wake the earliest deadline / make pending signals due / release a frozen victim. false = deadlock
static bool unblock_something() {
    // A frozen STALL victim is runnable: release it first.  (The frozen state exists only in record mode; every other
    // action below is a deterministic function of the simulator state and therefore identical in replay.)
    if (g_stall_on) { g_stall_on = false; g_stall_done = true; return true; }
    Thr* best = nullptr;
    for (int i = 0; i < g_nthr; i++) { Thr* x = &g_pool[i]; if ((x->st == SLEEPING || x->st == BLK_COND) && x->has_deadline && (!best || x->deadline < best->deadline)) best = x; }
    if (best) { if (best->deadline > g_now) g_now = best->deadline; best->timed_out = true; best->st = RUNNABLE; ++ST.timeouts; return true; }
    bool any = false;
    if (g_any_handler) for (int i = 0; i < g_nthr; i++) { Thr* x = &g_pool[i]; if (x->st != FINISHED && x->nsigs && !x->in_handler) { for (int j = 0; j < x->nsigs; j++) if (x->sigs[j].due > ST.steps) { x->sigs[j].due = 0; any = true; } } }
    if (any) return true;
    return false;
}

static void describe_threads(char* buf, size_t n) {
    size_t o = 0; for (int i = 0; i < g_nthr && o + 40 < n; i++) { Thr* x = &g_pool[i]; o += snprintf(buf + o, n - o, " t%d:st=%d,op=%d,spin=%d", x->id, (int)x->st, x->op, x->spin); }
}

// candidates other than 'me' (me may be null when called from a joiner)
static int collect(Thr* me, Thr** c, bool spinners) {
    int n = 0;
    for (int i = 0; i < g_nthr; i++) { Thr* t = &g_pool[i]; if (t == me || !t->started || !can_run(t) || frozen(t)) continue; if ((t->spin >= SPIN_T) != spinners) continue; c[n++] = t; }
    return n;
}
static Thr* least_recent(Thr** c, int n) { Thr* b = c[0]; for (int i = 1; i < n; i++) if (c[i]->last_run < b->last_run) b = c[i]; return b; }

// Strategy decision in record mode. self_ok: the caller may continue; must_other: it should not.
static Thr* strategy_pick(Thr* me, bool self_ok, bool must_other, Thr** c, int n) {
    if (n == 0) return self_ok ? me : nullptr;
    if (!self_ok || must_other) {
        if (P.strategy == S_PCT && !g_fair && !g_seq) { Thr* b = c[0]; for (int i = 1; i < n; i++) if (c[i]->prio > b->prio) b = c[i]; return b; }
        if (P.strategy == S_PRE1 && g_pre1_state == 1 && g_pre1_home && (me == g_pre1_guest || me == nullptr)) {
            for (int i = 0; i < n; i++) if (c[i] == g_pre1_home) { g_pre1_state = 2; return g_pre1_home; }
        }
        if (g_fair) { Thr* b = nullptr; int myid = me ? me->id : -1; for (int i = 0; i < n; i++) if (c[i]->id > myid && (!b || c[i]->id < b->id)) b = c[i]; if (!b) { b = c[0]; for (int i = 1; i < n; i++) if (c[i]->id < b->id) b = c[i]; } return b; }
        return c[rnd() % n];
    }
    // voluntary switch?
    if (g_seq) return me;
    if (g_fair) { if (--g_fair_left > 0) return me; g_fair_left = 50; return strategy_pick(me, false, true, c, n); }
    switch (P.strategy) {
    case S_RW: case S_STALL:
        if ((int)(rnd() % 1000) < P.rw_permille) return c[rnd() % n];
        return me;
    case S_PCT: {
        for (int i = 0; i < g_pct_n; i++) if (g_pct_change[i] == ST.steps) { me->prio = --g_prio_low; }
        Thr* b = me; for (int i = 0; i < n; i++) if (c[i]->prio > b->prio) b = c[i];
        return b; }
    case S_PRE1:
        if (g_pre1_state == 0 && me->client_ord == P.pre1_victim && me->opcount - 1 == P.pre1_op && me->ord >= P.pre1_ord && me->op >= 0) {
            g_pre1_state = 1; g_pre1_home = me; g_pre1_guest = c[rnd() % n]; g_pre1_guest_ops = g_pre1_guest->opcount; g_pre1_until = ST.steps + (uint64_t)P.pre1_m;
            return g_pre1_guest;
        }
        if (g_pre1_state == 1 && me == g_pre1_guest) {
            bool back = (P.pre1_mode == 0 && me->opcount > g_pre1_guest_ops + 1) || (P.pre1_mode == 2 && ST.steps >= g_pre1_until);
            if (back) for (int i = 0; i < n; i++) if (c[i] == g_pre1_home) { g_pre1_state = 2; return g_pre1_home; }
        }
        return me;
    }
    return me;
}

// Decide who runs next at thread 'me's current coordinate. Returns null if nobody can run.
static Thr* choose_next(Thr* me, bool self_ok, bool must_other, int ctid, int cop, int cord) {
    Thr* c[MAXT]; Thr* cs[MAXT];
    int n = collect(me, c, false), ns = collect(me, cs, true);
    if (!g_unint && me && self_ok && (me->spin >= SPIN_T || frozen(me))) must_other = true;   // (an uninterruptible section reads many hazard slots in a row: that is not a spin)
    Thr* pick = nullptr;
    if (g_record) {
        if (n > 0) pick = strategy_pick(me, self_ok, must_other, c, n);
        else if (self_ok && !(must_other && ns > 0)) pick = me;
        else if (ns > 0) pick = least_recent(cs, ns);
        else pick = self_ok ? me : nullptr;
        if (pick && pick != me) log_dec(ctid, cop, cord, D_SWITCH, pick->id + 1);
        else if (pick && must_other && (n > 0 || ns > 0 || g_stall_on)) log_dec(ctid, cop, cord, D_SWITCH, pick->id + 1);   // explicit "stay"
        if (P.trace && pick != me) fprintf(stderr, "  >> rec t%d@%d.%d -> t%d\n", ctid, cop, cord, pick ? pick->id : -1);
        return pick;
    }
    long v = 0;
    if (script_get(ctid, cop, cord, D_SWITCH, &v) && v >= 1 && v <= g_nthr) {
        Thr* t = &g_pool[v - 1];
        if (P.trace) fprintf(stderr, "  >> rep t%d@%d.%d -> t%ld\n", ctid, cop, cord, v - 1);
        if (t == me && self_ok) { log_dec(ctid, cop, cord, D_SWITCH, v); return me; }
        if (t != me && t->started && can_run(t)) { log_dec(ctid, cop, cord, D_SWITCH, v); return t; }
        if (P.trace) fprintf(stderr, "  !! scripted switch t%d@%d.%d -> t%ld not possible (st=%d started=%d handler=%d)\n", ctid, cop, cord, v - 1, (int)t->st, (int)t->started, (int)t->in_handler);
    }
    if (self_ok && !must_other) return me;
    // forced switch without a usable script entry (minimised scripts): deterministic default
    if (n > 0) return least_recent(c, n);
    if (self_ok && ns == 0) return me;
    if (ns > 0) return least_recent(cs, ns);
    return nullptr;
}

static void inject_wakeups(Thr* s) {   // faults F6 / F8, decided at the running thread's coordinate
    if (P.f6_permille <= 0 && P.f8_permille <= 0 && g_record) return;
    if (g_record) {
        if (!g_faults || g_seq || g_fair) return;
        Thr* w[MAXT]; int n = 0;
        if (P.f8_permille > 0 && (int)(frnd() % 1000) < P.f8_permille) {
            for (int i = 0; i < g_nthr; i++) { Thr* x = &g_pool[i]; if ((x->st == SLEEPING || x->st == BLK_COND) && x->has_deadline) w[n++] = x; }
            if (n) { Thr* x = w[frnd() % n]; x->timed_out = true; x->st = RUNNABLE; ++ST.f8; log_dec(s->id, s->op, s->ord, D_EARLYTO, x->id + 1); }
        }
        n = 0;
        if (P.f6_permille > 0 && (int)(frnd() % 1000) < P.f6_permille) {
            for (int i = 0; i < g_nthr; i++) { Thr* x = &g_pool[i]; if (x->st == BLK_COND) w[n++] = x; }
            if (n) { Thr* x = w[frnd() % n]; x->timed_out = false; x->st = RUNNABLE; ++ST.f6; log_dec(s->id, s->op, s->ord, D_SPURIOUS, x->id + 1); }
        }
        return;
    }
    long v = 0;
    if (script_get(s->id, s->op, s->ord, D_EARLYTO, &v) && v >= 1 && v <= g_nthr) { Thr* x = &g_pool[v - 1]; if ((x->st == SLEEPING || x->st == BLK_COND) && x->has_deadline) { x->timed_out = true; x->st = RUNNABLE; ++ST.f8; log_dec(s->id, s->op, s->ord, D_EARLYTO, v); } }
    if (script_get(s->id, s->op, s->ord, D_SPURIOUS, &v) && v >= 1 && v <= g_nthr) { Thr* x = &g_pool[v - 1]; if (x->st == BLK_COND) { x->timed_out = false; x->st = RUNNABLE; ++ST.f6; log_dec(s->id, s->op, s->ord, D_SPURIOUS, v); } }
}

static void resched(bool must_other) {
    Thr* s = self;
    for (;;) {
        bool self_ok = s->st == RUNNABLE || s->in_handler;
        // STALL: begin / end of the frozen window
        if (g_record && P.strategy == S_STALL && !g_stall_done && !g_seq && !g_fair) {
            if (!g_stall_on && s->client_ord == P.stall_victim && s->is_client && s->phase_points >= (uint64_t)P.stall_at) { g_stall_on = true; g_stall_until = ST.steps + (uint64_t)P.stall_len; ++ST.f3_stall; }
            if (g_stall_on && ST.steps >= g_stall_until) { g_stall_on = false; g_stall_done = true; }
        }
        Thr* t = choose_next(s, self_ok, must_other, s->id, s->op, s->ord);
        if (!t) {
            if (!unblock_something()) { char b[1024]; describe_threads(b, sizeof b); fatal("deadlock", b); }
            continue;
        }
        if (t == s && frozen(s)) { g_stall_on = false; g_stall_done = true; }
        if (t != s && self_ok && s->spin < SPIN_T) ++ST.preemptions;
        switch_to(t);
        return;
    }
}

static void progress_by(Thr* w) { for (int i = 0; i < g_nthr; i++) if (&g_pool[i] != w) { g_pool[i].spin = 0; } if (w) { w->ro_streak = 0; } }

void point(int kind, const void* addr) {
    Thr* s = self;
    if (!g_active || !s || s->in_sched) return;
    s->in_sched = true;
    ++ST.steps; ++s->ord; ++s->phase_points; g_now += 10;
    if (ST.steps >= P.hard_cap) {
        // "hang-solo": every other client has finished all of its operations, so nothing can ever change the state the running thread is
        // waiting for; its pending operation can never return although the sequential specification gives every operation a response.
        // (A plain "hang" has several unfinished clients: they may be waiting for each other, which is a liveness matter.)
        bool solo = (g_live_clients == 1 && s->is_client) || (g_live_clients == 0 && s->id == 0);
        char b[1024]; describe_threads(b, sizeof b); fatal(solo ? "hang-solo" : "hang", b);
    }
    if (ST.steps >= P.soft_cap && !g_fair) { g_fair = true; g_fair_left = 50; ST.soft_capped = true; g_stall_on = false; g_stall_done = true; }
    Ev& e = g_ev[ST.steps & (EVN - 1)]; e.step = ST.steps; e.tid = s->id; e.kind = kind; e.addr = addr;
    ST.trace_hash = (ST.trace_hash * 1099511628211ULL) ^ (uint64_t)(s->id * 32 + kind);
    if (P.trace) fprintf(stderr, "  [%lu] t%d op%d.%d k%d %p\n", (unsigned long)ST.steps, s->id, s->op, s->ord, kind, addr);
    if (P.tso_permille > 0 || !g_record) sb_tick();
    if (kind == K_LOAD_P || kind == K_FENCE_P || kind == K_LOAD || kind == K_FENCE || kind == K_RMW) { if (++s->ro_streak % 128 == 0) ++s->spin; }
    inject_wakeups(s);
    s->in_sched = false;
    if (run_signals()) ++s->ord;   // the handler's own points used coordinates; the outer decision needs a fresh one
    s->in_sched = true;
    resched(false);
    s->in_sched = false;
    run_signals();
}

static void block(State st, const void* obj, bool hasdl, uint64_t dl) {
    Thr* s = self; ++ST.blocks; s->nsb = 0;
    s->st = st; s->obj = obj; s->has_deadline = hasdl; s->deadline = dl; s->timed_out = false;
    for (;;) {
        ++s->ord;   // every scheduling decision needs its own coordinate
        s->in_sched = true; resched(true); s->in_sched = false;
        run_signals();
        if (s->st == RUNNABLE) break;
    }
    s->has_deadline = false;
}
static void wake_all(State st, const void* obj) { for (int i = 0; i < g_nthr; i++) { Thr* t = &g_pool[i]; if (t->st == st && t->obj == obj) t->st = RUNNABLE; } }

// ---------------------------------------------------------------- public API
bool active() { return g_active; }
int self_id() { return self ? self->id : -1; }
uint64_t now_step() { return ST.steps; }
uint64_t clock_ns() { return g_now; }
const Stats& stats() { return ST; }
void set_fatal(fatal_fn f) { g_fatal = f; }
const std::vector<Dec>& decisions() { static std::vector<Dec> v; ++t_bypass; v.assign(g_dec, g_dec + g_ndec); --t_bypass; return v; }
void set_op(int opid) { if (self) { self->op = opid; self->ord = 0; } }
uint64_t op_invoke(int opid) {
    Thr* s = self; if (!s) return 0;
    s->nsb = 0; s->op = opid; s->ord = 0; s->hints = 0; ++s->opcount;
    point(K_INVOKE); s->nsb = 0;
    ST.sig_hash = (ST.sig_hash * 1099511628211ULL) ^ (uint64_t)(s->id * 4 + 1);
    return ST.steps;
}
uint64_t op_return() {
    Thr* s = self; if (!s) return 0;
    s->nsb = 0; progress_by(s);
    uint64_t stamp = ST.steps;     // every effect of the op happened at or before this step
    ST.sig_hash = (ST.sig_hash * 1099511628211ULL) ^ (uint64_t)(s->id * 4 + 2);
    point(K_RETURN);
    return stamp;
}
void sequential(bool on) { g_seq = on; }
void uninterruptible(bool on) { g_seq = on; g_unint = on; if (!on && self) { self->spin = 0; self->ro_streak = 0; } }
void faults_enabled(bool on) { g_faults = on; }
long decide(int dkind, int permille, long val_if_fired) { Thr* s = self; if (!g_active || !s) return 0; ++s->ord; return fault_decide(s, dkind, permille, val_if_fired); }
int thread_count() { return g_nthr; }
bool thread_finished(int tid) { return tid >= 0 && tid < g_nthr && g_pool[tid].st == FINISHED; }
void wait_thread_finished(int tid) {
    if (!self || tid < 0 || tid >= g_nthr) return;
    point(K_JOIN);
    Thr* t = &g_pool[tid]; while (t->st != FINISHED) block(BLK_JOIN, t, false, 0);
}
void barrier(int id, int parties) {
    if (!self) return;
    int k = -1; for (int i = 0; i < 8; i++) if (g_bar[i].parties && g_bar[i].id == id) k = i;
    if (k < 0) for (int i = 0; i < 8; i++) if (!g_bar[i].parties) { k = i; g_bar[i].id = id; g_bar[i].parties = parties; g_bar[i].arrived = 0; break; }
    if (k < 0) fatal("harness", "too many barriers");
    point(K_BARRIER);
    if (++g_bar[k].arrived >= g_bar[k].parties) { g_bar[k].parties = 0; wake_all(BLK_BARRIER, &g_bar[k]); progress_by(self); return; }
    block(BLK_BARRIER, &g_bar[k], false, 0);
}
void yield_hint() { Thr* s = self; if (!g_active || !s) return; ++s->spin; point(K_YIELD); }
void note_progress() { progress_by(self); }
void mark_client(bool on, int ord) {
    Thr* s = self; if (!s) return;
    if (on && !s->is_client) { s->is_client = true; s->phase_points = 0; s->client_ord = ord >= 0 ? ord : g_next_client_ord++; ++g_live_clients; if (g_live_clients > ST.max_concurrent) ST.max_concurrent = g_live_clients; }
    if (!on && s->is_client) { s->is_client = false; --g_live_clients; }
}

static void thr_init(Thr* t, int id) {
    t->id = id; t->go.store(0); t->exiting.store(0); t->st = RUNNABLE; t->obj = nullptr; t->deadline = 0;
    t->has_deadline = t->timed_out = t->in_handler = t->in_sched = t->is_client = t->exit_flag = false; t->started = true;
    t->nsb = 0; t->nsigs = 0; t->spin = 0; t->hints = 0; t->ro_streak = 0; t->casfail_streak = 0;
    t->fn = nullptr; t->arg = nullptr; t->op = -1; t->ord = 0; t->opcount = 0; t->phase_points = 0; t->last_run = 0; t->client_ord = -1;
    t->prio = g_record ? (long)(rnd() % 1000000) + 1000 : 0;
}

void begin(const Params& p) {
    static auto real_self = (pthread_t(*)())dlsym(RTLD_NEXT, "pthread_self");
    ++t_bypass;
    if (!g_dec) g_dec = (Dec*)malloc(sizeof(Dec) * MAXDEC);
    if (g_skeys) { free(g_skeys); free(g_svals); g_skeys = nullptr; g_svals = nullptr; }
    --t_bypass;
    P = p; ST = Stats(); ST.trace_hash = 1469598103934665603ULL; ST.sig_hash = 1469598103934665603ULL;
    g_ndec = 0; g_dec_overflow = false; g_record = (p.script == nullptr);
    if (!g_record) script_build(*p.script);
    g_rng = p.seed * 0x9E3779B97F4A7C15ULL + 0x1234567; if (!g_rng) g_rng = 1;
    g_frng = (p.seed ^ 0xA5A5A5A5DEADBEEFULL) * 0xD1342543DE82EF95ULL + 1; if (!g_frng) g_frng = 1;
    for (int i = 0; i < 8; i++) { rnd(); frnd(); }
    g_now = 1600000000ULL * 1000000000ULL; g_seq = true; g_unint = false; g_faults = true; g_fair = false;
    if (++g_mtx_gen == 0) { memset(g_mtx, 0, sizeof g_mtx); g_mtx_gen = 1; } memset(g_has_handler, 0, sizeof g_has_handler); g_any_handler = false; memset(g_bar, 0, sizeof g_bar);
    g_prio_low = 999; g_pct_n = 0;
    if (p.strategy == S_PCT) { g_pct_n = p.pct_depth - 1; if (g_pct_n > 8) g_pct_n = 8; if (g_pct_n < 0) g_pct_n = 0; for (int i = 0; i < g_pct_n; i++) g_pct_change[i] = 1 + rnd() % (uint64_t)(p.expected_steps > 0 ? p.expected_steps : 1); }
    g_pre1_state = 0; g_pre1_home = g_pre1_guest = nullptr; g_stall_on = false; g_stall_done = false; g_live_clients = 0; g_next_client_ord = 0;
    g_nthr = 1; Thr* t = &g_pool[0]; thr_init(t, 0); t->real = real_self();
    self = t; g_cur = t; t_sim = true;
    arena_begin_run(p.use_arena, p.arena_delay);
    g_active = true;
}
void end() {
    Thr* s = self; if (s) s->nsb = 0;
    ST.sim_ns = g_now - 1600000000ULL * 1000000000ULL;
    ST.threads = (uint64_t)g_nthr;
    g_active = false;
    arena_stats(&ST.arena_allocs, &ST.arena_live_at_end, &ST.arena_peak);
    arena_end_run();
    self = nullptr;
}
} // namespace dsim

using namespace dsim;

// ---------------------------------------------------------------- hooks called from the instrumented atomic and from H2
extern "C" void cds_verif_pre(int k, const void* a) noexcept {
    if (g_active && self && dsim::arena_is_freed(a)) { if (!ST.uaf++) { ST.uaf_step = ST.steps; ST.uaf_addr = a; ST.uaf_thread = self->id; ST.uaf_kind = k; } }
    dsim::point(k, a);
}
extern "C" void cds_verif_post(int k, const void* a, int wrote) noexcept {
    Thr* s = self; if (!g_active || !s) return;
    if (wrote) { progress_by(s); ST.sig_hash = (ST.sig_hash * 1099511628211ULL) ^ (uint64_t)(s->id * 4 + 3); if (k == K_RMW) s->casfail_streak = 0; }
    dsim::point(k + 4, a);
}
extern "C" int cds_verif_cas_weak_fail() noexcept {
    Thr* s = self; if (!g_active || !s || s->in_sched) return 0;
    if (g_record && s->casfail_streak >= 3) return 0;
    long v = fault_decide(s, D_CASFAIL, P.f1_permille, 1);
    if (v) { ++s->casfail_streak; ++ST.f1; }
    return v ? 1 : 0;
}
extern "C" int cds_verif_tso_load(const void* addr, unsigned size, void* out) noexcept {
    Thr* s = self; if (!g_active || !s) return 0;
    for (int i = 0; i < g_nthr; i++) { Thr* t = &g_pool[i]; if (t == s || !t->nsb) continue; for (int j = 0; j < t->nsb; j++) if (t->sb[j].addr == addr) { memcpy(out, t->sb[j].oldv, size); ++ST.f2_stale; return 1; } }
    return 0;
}
extern "C" void cds_verif_tso_store(const void* addr, unsigned size, const void* oldv, const void* /*newv*/, int seq_cst) noexcept {
    Thr* s = self; if (!g_active || !s) return;
    sb_drain_addr_foreign(addr);                       // at most one thread has a pending entry per location
    if (seq_cst || size > 16) { s->nsb = 0; return; }   // seq_cst store = xchg: drains
    for (int j = s->nsb; j-- > 0;) if (s->sb[j].addr == addr) { sb_drain_upto(s, j + 1); break; }   // one entry per address
    long resid = 0;
    if (dsim::arena_contains(addr)) resid = fault_decide(s, D_TSOBUF, P.tso_permille, P.tso_residency);
    if (resid <= 0) { s->nsb = 0; return; }             // not delayed: FIFO order ⇒ everything older becomes visible too
    if (s->nsb == MAXSB) sb_drain_upto(s, 1);
    SB& e = s->sb[s->nsb++]; e.addr = addr; e.size = size; memcpy(e.oldv, oldv, size); e.born = ST.steps; e.resid = (uint64_t)resid;
    ++ST.f2_buffered;
}
extern "C" void cds_verif_tso_rmw(const void* addr, unsigned) noexcept {
    Thr* s = self; if (!g_active || !s) return;
    s->nsb = 0; if (addr) sb_drain_addr_foreign(addr);
}
extern "C" void cds_verif_spin() noexcept {
    Thr* s = self; if (!g_active || !s || s->in_sched) return;
    unsigned n = ++s->hints; if ((n & (n - 1)) == 0) dsim::yield_hint();
}

// ---------------------------------------------------------------- interposed primitives
#define REAL(name) static auto real_##name = (decltype(&name))dlsym(RTLD_NEXT, #name)
#define REALV(name, ver) static auto real_##name = (decltype(&name))dlvsym(RTLD_NEXT, #name, ver)
static inline bool sim() { return g_active && self && !self->in_sched; }

static Mtx& mtx_of(const void* m) {
    size_t i = ((uintptr_t)m >> 3) * 0x9E3779B1u % MTXN;
    for (int k = 0; k < MTXN; k++) { Mtx& x = g_mtx[(i + k) % MTXN]; if (x.gen == g_mtx_gen && x.key == m) return x; if (x.gen != g_mtx_gen) { x.gen = g_mtx_gen; x.key = m; x.owner = nullptr; x.count = 0; return x; } }
    fatal("budget", "mutex table full");
}
static bool is_recursive(pthread_mutex_t* m) { return (m->__data.__kind & 3) == PTHREAD_MUTEX_RECURSIVE_NP; }

extern "C" {
int pthread_mutex_lock(pthread_mutex_t* m) {
    REAL(pthread_mutex_lock); if (!sim()) return real_pthread_mutex_lock(m);
    point(K_MLOCK, m);
    for (;;) {
        Mtx& x = mtx_of(m);
        if (!x.owner) { x.owner = self; x.count = 1; self->nsb = 0; progress_by(self); return 0; }
        if (x.owner == self) { if (is_recursive(m)) { ++x.count; return 0; } fatal("harness", "self-deadlock on non-recursive mutex"); }
        block(BLK_MUTEX, m, false, 0);
    }
}
int pthread_mutex_trylock(pthread_mutex_t* m) {
    REAL(pthread_mutex_trylock); if (!sim()) return real_pthread_mutex_trylock(m);
    point(K_MTRY, m);
    Mtx& x = mtx_of(m); self->nsb = 0;
    if (!x.owner) { x.owner = self; x.count = 1; progress_by(self); return 0; }
    if (x.owner == self && is_recursive(m)) { ++x.count; return 0; }
    return EBUSY;
}
int pthread_mutex_unlock(pthread_mutex_t* m) {
    REAL(pthread_mutex_unlock); if (!sim()) return real_pthread_mutex_unlock(m);
    Mtx& x = mtx_of(m); self->nsb = 0;
    if (x.owner != self) fatal("harness", "mutex unlocked by non-owner");
    if (--x.count == 0) { x.owner = nullptr; wake_all(BLK_MUTEX, m); progress_by(self); }
    point(K_MUNLOCK, m);
    return 0;
}
static int cond_wait_impl(pthread_cond_t* c, pthread_mutex_t* m, bool hasdl, uint64_t dl) {
    Mtx& x = mtx_of(m);
    if (x.owner != self) fatal("harness", "cond_wait without owning the mutex");
    int saved = x.count; x.count = 0; x.owner = nullptr; wake_all(BLK_MUTEX, m); progress_by(self);
    block(BLK_COND, c, hasdl, dl);      // unlock + enqueue is one indivisible simulator step
    bool to = self->timed_out;
    for (;;) { Mtx& y = mtx_of(m); if (!y.owner) { y.owner = self; y.count = saved; break; } block(BLK_MUTEX, m, false, 0); }
    point(K_CWAIT, c);
    return to ? ETIMEDOUT : 0;
}
static uint64_t ts_ns(const timespec* ts) { return (uint64_t)ts->tv_sec * 1000000000ULL + (uint64_t)ts->tv_nsec; }
int pthread_cond_wait(pthread_cond_t* c, pthread_mutex_t* m) { REALV(pthread_cond_wait, "GLIBC_2.3.2"); if (!sim()) return real_pthread_cond_wait(c, m); return cond_wait_impl(c, m, false, 0); }
int pthread_cond_timedwait(pthread_cond_t* c, pthread_mutex_t* m, const timespec* ts) { REALV(pthread_cond_timedwait, "GLIBC_2.3.2"); if (!sim()) return real_pthread_cond_timedwait(c, m, ts); return cond_wait_impl(c, m, true, ts_ns(ts)); }
int pthread_cond_clockwait(pthread_cond_t* c, pthread_mutex_t* m, clockid_t k, const timespec* ts) { REAL(pthread_cond_clockwait); if (!sim()) return real_pthread_cond_clockwait(c, m, k, ts); return cond_wait_impl(c, m, true, ts_ns(ts)); }
int pthread_cond_signal(pthread_cond_t* c) {
    REALV(pthread_cond_signal, "GLIBC_2.3.2"); if (!sim()) return real_pthread_cond_signal(c);
    Thr* w[MAXT]; int n = 0; for (int i = 0; i < g_nthr; i++) if (g_pool[i].st == BLK_COND && g_pool[i].obj == c) w[n++] = &g_pool[i];
    Thr* s = self; ++s->ord;
    if (n) {
        long idx = 0;
        if (g_record) { idx = (long)(frnd() % (uint64_t)n); if (idx) log_dec(s->id, s->op, s->ord, D_CONDWAKE, idx); }
        else { if (script_get(s->id, s->op, s->ord, D_CONDWAKE, &idx)) { if (idx < 0 || idx >= n) idx = 0; else if (idx) log_dec(s->id, s->op, s->ord, D_CONDWAKE, idx); } else idx = 0; }
        w[idx]->st = RUNNABLE; w[idx]->timed_out = false; progress_by(s);
    }
    point(K_CSIGNAL, c); return 0;
}
int pthread_cond_broadcast(pthread_cond_t* c) { REALV(pthread_cond_broadcast, "GLIBC_2.3.2"); if (!sim()) return real_pthread_cond_broadcast(c); wake_all(BLK_COND, c); progress_by(self); point(K_CBCAST, c); return 0; }

// the joiner owns the token once its simulated thread has really died
static void handoff_from_dead(Thr* dead) {
    for (;;) {
        Thr* n = choose_next(nullptr, false, true, dead->id, -2, 0);
        if (!n) { if (!unblock_something()) { char b[1024]; describe_threads(b, sizeof b); fatal("deadlock", b); } continue; }
        ++ST.switches; g_cur = n; n->last_run = ST.steps; fwake(&n->go); return;
    }
}
static void* joiner_main(void* p) {
    static auto real_join = (int (*)(pthread_t, void**))dlsym(RTLD_NEXT, "pthread_join");
    Thr* t = (Thr*)p; fwait(&t->exiting); real_join(t->real, nullptr);
    t->st = FINISHED; if (t->is_client) { t->is_client = false; --g_live_clients; }
    wake_all(BLK_JOIN, t); handoff_from_dead(t); return nullptr;
}
static void* trampoline(void* p) {
    Thr* t = (Thr*)p; t_sim = true; self = t; fwait(&t->go);
    point(K_START);
    void* r = t->fn(t->arg);
    t->nsb = 0; point(K_EXIT); t->op = -3; t->ord = 0; t->exit_flag = true;
    fwake(&t->exiting);   // keep the token through the TLS destructors; the joiner passes it on
    return r;
}
int pthread_create(pthread_t* pt, const pthread_attr_t* a, void* (*fn)(void*), void* arg) {
    REAL(pthread_create); if (!sim()) return real_pthread_create(pt, a, fn, arg);
    if (g_nthr >= MAXT) fatal("harness", "too many simulated threads");
    Thr* t = &g_pool[g_nthr]; thr_init(t, g_nthr); t->fn = fn; t->arg = arg; t->last_run = ST.steps; self->nsb = 0;
    ++t_bypass;
    int r = real_pthread_create(&t->real, a, trampoline, t);
    if (r == 0) {
        ++g_nthr; *pt = t->real;
        pthread_attr_t ja; pthread_attr_init(&ja); pthread_attr_setdetachstate(&ja, PTHREAD_CREATE_DETACHED); pthread_attr_setstacksize(&ja, 65536);
        if (real_pthread_create(&t->joiner, &ja, joiner_main, t) != 0) fatal("harness", "cannot create joiner thread");
        pthread_attr_destroy(&ja);
    }
    --t_bypass;
    if (r == 0) { progress_by(self); point(K_CREATE); }
    return r;
}
int pthread_join(pthread_t pt, void** ret) {
    REAL(pthread_join); if (!sim()) return real_pthread_join(pt, ret);
    Thr* t = nullptr; for (int i = 1; i < g_nthr; i++) if (pthread_equal(g_pool[i].real, pt)) t = &g_pool[i];
    if (!t) return real_pthread_join(pt, ret);
    point(K_JOIN);
    while (t->st != FINISHED) block(BLK_JOIN, t, false, 0);
    if (ret) *ret = nullptr;
    return 0;
}
int pthread_detach(pthread_t pt) {
    REAL(pthread_detach); if (!sim()) return real_pthread_detach(pt);
    for (int i = 1; i < g_nthr; i++) if (pthread_equal(g_pool[i].real, pt)) return 0;   // the joiner thread joins it
    return real_pthread_detach(pt);
}
// Simulated thread ids are a function of (run seed, thread index): code that hashes thread ids (CachedFreeList's cache slot,
// std::hash<std::thread::id>) then sees different slot constellations in different runs instead of the same one for ever.
static inline uintptr_t tid_base() { return 0x1000 + (uintptr_t)(P.seed & 0xff) * 0x100000; }
pthread_t pthread_self(void) {
    REAL(pthread_self); Thr* s = self; if (!g_active || !s) return real_pthread_self();
    return (pthread_t)(uintptr_t)(tid_base() + s->id * 0x100);
}
int pthread_kill(pthread_t pt, int sig) {
    REAL(pthread_kill); if (!sim()) return real_pthread_kill(pt, sig);
    uintptr_t v = (uintptr_t)pt;
    if (v >= tid_base() && (v - tid_base()) % 0x100 == 0 && (v - tid_base()) / 0x100 < (uintptr_t)g_nthr) {
        Thr* t = &g_pool[(v - tid_base()) / 0x100]; Thr* s = self; ++s->ord; s->nsb = 0;
        if (sig && t->st != FINISHED && !t->exit_flag) {
            bool dup = false; for (int i = 0; i < t->nsigs; i++) if (t->sigs[i].sig == sig) dup = true;   // non-RT signals coalesce
            if (!dup && t->nsigs < MAXSIG) {
                long d = 0;
                if (P.f7_maxdelay > 0 || !g_record) { d = fault_decide(s, D_SIGDELAY, 500, g_record ? 1 + (long)(frnd() % (uint64_t)P.f7_maxdelay) : 1); if (d) ++ST.f7; }
                t->sigs[t->nsigs].sig = sig; t->sigs[t->nsigs].due = ST.steps + (uint64_t)d; ++t->nsigs;
            }
        }
        progress_by(s); point(K_KILL);
        return (t->st == FINISHED) ? ESRCH : 0;
    }
    return real_pthread_kill(pt, sig);
}
int sigaction(int sg, const struct sigaction* a, struct sigaction* o) {
    REAL(sigaction);
    if (g_active && self && sg >= 1 && sg <= 64) {
        if (o) { if (g_has_handler[sg]) *o = g_handlers[sg]; else { memset(o, 0, sizeof *o); o->sa_handler = SIG_DFL; } }
        if (a) { bool h = (a->sa_flags & SA_SIGINFO) ? a->sa_sigaction != nullptr : (a->sa_handler != SIG_DFL && a->sa_handler != SIG_IGN); g_handlers[sg] = *a; g_has_handler[sg] = h; g_any_handler = false; for (int i = 1; i <= 64; i++) if (g_has_handler[i]) g_any_handler = true; }
        return 0;
    }
    return real_sigaction(sg, a, o);
}
int sched_yield(void) { REAL(sched_yield); if (!sim()) return real_sched_yield(); dsim::yield_hint(); return 0; }
int nanosleep(const timespec* rq, timespec* rm) {
    REAL(nanosleep); if (!sim()) return real_nanosleep(rq, rm);
    point(K_SLEEP); block(SLEEPING, nullptr, true, g_now + ts_ns(rq)); if (rm) { rm->tv_sec = 0; rm->tv_nsec = 0; } return 0;
}
int clock_nanosleep(clockid_t k, int f, const timespec* rq, timespec* rm) {
    REAL(clock_nanosleep); if (!sim()) return real_clock_nanosleep(k, f, rq, rm);
    uint64_t d = ts_ns(rq); point(K_SLEEP); block(SLEEPING, nullptr, true, (f & TIMER_ABSTIME) ? d : g_now + d); if (rm) { rm->tv_sec = 0; rm->tv_nsec = 0; } return 0;
}
int usleep(useconds_t us) { REAL(usleep); if (!sim()) return real_usleep(us); point(K_SLEEP); block(SLEEPING, nullptr, true, g_now + (uint64_t)us * 1000ULL); return 0; }
int clock_gettime(clockid_t k, timespec* ts) {
    REAL(clock_gettime); if (!g_active || !self) return real_clock_gettime(k, ts);
    ts->tv_sec = (time_t)(g_now / 1000000000ULL); ts->tv_nsec = (long)(g_now % 1000000000ULL); return 0;
}
} // extern "C"
