// dsim — deterministic simulator for real pthreads (token passing), see /verif/DESIGN.md §2.
// One simulated thread runs at a time; every scheduling choice and every injected fault is a
// "decision" keyed by the coordinate (thread, op id, ordinal of the point inside the op, kind).
// In record mode decisions come from a PRNG-driven strategy and are logged; in replay mode they
// come from a script and the PRNG is never consulted.
#pragma once
#include <cstdint>
#include <cstddef>
#include <string>
#include <vector>

namespace dsim {

enum PointKind {
    K_LOAD = 1, K_STORE = 2, K_RMW = 3, K_FENCE = 4,      // pre-op points (post = +4)
    K_LOAD_P = 5, K_STORE_P = 6, K_RMW_P = 7, K_FENCE_P = 8,
    K_YIELD = 9, K_MLOCK = 10, K_MTRY = 11, K_MUNLOCK = 12, K_CSIGNAL = 13, K_CBCAST = 14,
    K_CREATE = 15, K_JOIN = 16, K_KILL = 17, K_USER = 18, K_CWAIT = 19,
    K_INVOKE = 20, K_RETURN = 21, K_SLEEP = 22, K_START = 23, K_EXIT = 24, K_BARRIER = 25, K_SIGRUN = 26
};

enum DecKind { D_SWITCH = 1, D_CASFAIL = 2, D_TSOBUF = 3, D_SIGDELAY = 4, D_CONDWAKE = 5, D_SPURIOUS = 6, D_EARLYTO = 7, D_USER = 8, D_EAGER = 9 };

enum Strategy { S_RW = 0, S_PCT = 1, S_PRE1 = 2, S_STALL = 3, S_NSTRAT = 4 };

struct Dec { int tid, op, ord, kind; long val; };

struct Params {
    uint64_t seed = 1;            // seeds the scheduling / fault PRNGs (record mode only)
    int strategy = S_RW;
    int rw_permille = 100;        // RW / STALL: probability of a voluntary switch at a point
    int pct_depth = 2;            // PCT: number of priority change points + 1
    int expected_steps = 2000;    // PCT: range over which change points are placed
    int stall_victim = 1;         // STALL: victim thread id
    int stall_at = 10;            // STALL: victim freezes at its n-th point of the concurrent phase
    int stall_len = 300;          // STALL: frozen for this many global steps
    int pre1_victim = 1, pre1_op = 0, pre1_ord = 1, pre1_mode = 0, pre1_m = 50;  // PRE1 coordinate and guest mode
    int f1_permille = 0;          // weak-CAS spurious failure rate
    int tso_permille = 0;         // F2: probability that an eligible store is buffered (0 = SC)
    int tso_residency = 64;       // F2: how many global steps a buffered store may stay invisible
    int f6_permille = 0;          // spurious condvar wake-up rate (per point)
    int f7_maxdelay = 0;          // signal delivery delay in steps (0 = immediate)
    int f8_permille = 0;          // early time-out rate (per point)
    uint64_t soft_cap = 200000;   // after this many points: FAIR scheduling, faults off
    uint64_t hard_cap = 400000;   // after this many points: verdict HANG (fatal callback)
    bool use_arena = true;        // serve heap allocations of simulated threads from the fixed-address arena
    int arena_delay = 0;          // arena free-list quarantine length (0 = immediate LIFO reuse)
    const std::vector<Dec>* script = nullptr;   // non-null: replay mode
    bool trace = false;           // print every point to stderr
};

struct Stats {
    uint64_t steps = 0, switches = 0, preemptions = 0, sim_ns = 0;
    uint64_t trace_hash = 0, sig_hash = 0;
    uint64_t f1 = 0, f2_buffered = 0, f2_stale = 0, f3_stall = 0, f6 = 0, f7 = 0, f8 = 0, signals = 0, timeouts = 0, blocks = 0;
    uint64_t threads = 0, lib_threads = 0, arena_allocs = 0, arena_live_at_end = 0, arena_peak = 0;
    int max_concurrent = 0;       // max number of simultaneously live client threads
    bool soft_capped = false;
    uint64_t uaf = 0, uaf_step = 0; const void* uaf_addr = nullptr; int uaf_thread = -1, uaf_kind = 0;   // atomic operations on freed arena memory (first one described)
};

typedef void (*fatal_fn)(const char* cls, const char* detail);   // called on HANG / DEADLOCK; must not return

// ---- run control (called on the thread that becomes simulated thread 0)
void begin(const Params&);
void end();
void set_fatal(fatal_fn);
const Stats& stats();
const std::vector<Dec>& decisions();   // record mode: what was decided; replay mode: the script entries actually used
bool active();

// ---- called by simulated threads
void point(int kind, const void* addr = nullptr);
int self_id();                 // simulated thread id, -1 if the caller is not simulated
uint64_t now_step();           // global step counter (time base of every oracle)
uint64_t clock_ns();
void set_op(int opid);         // coordinate: following points belong to op 'opid' (negative = harness phases)
uint64_t op_invoke(int opid);  // set_op + TSO drain + K_INVOKE point; returns the stamp
uint64_t op_return();          // TSO drain + K_RETURN point; returns the stamp
void uninterruptible(bool on);  // like sequential(), and a long run of loads is not taken for a spin (the caller must not wait for another thread inside)
void sequential(bool on);      // sequential mode: switch only when the running thread blocks; faults off
void faults_enabled(bool on);
long decide(int dkind, int permille, long val_if_fired = 1);   // harness-level seeded decision (0 = not fired)
void wait_thread_finished(int tid);   // block until simulated thread 'tid' has finished (incl. TLS destructors)
int  thread_count();           // number of simulated threads created so far in this run
bool thread_finished(int tid);
void barrier(int id, int parties);    // simulator-level barrier for phased programs
void yield_hint();
void drain_self();             // TSO: make all own buffered stores visible
void note_progress();          // harness: the calling thread made progress (resets spin classification of others)
void mark_client(bool on, int client_index = -1);     // the calling thread is a client thread (counts for overlap statistics)

// ---- arena (arena.cpp)
void* arena_alloc(size_t size, size_t align);
void  arena_free(void* p);
bool  arena_contains(const void* p);
bool  arena_is_freed(const void* p);   // p lies in a block that was handed out and has been freed (and not handed out again)
size_t arena_usable(const void* p);

} // namespace dsim
