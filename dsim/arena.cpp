// Deterministic heap for simulated threads: a fixed-address arena reset at the start of each run,
// so that pointer values are a function of the run and not of the process (DESIGN.md §4).
// The malloc family and global operator new/delete are defined here as strong symbols of the test
// executable; callers that are not simulated threads are forwarded to glibc (__libc_*).
#include <sys/mman.h>
#include <cstddef>
#include <cstdint>
#include <cstdio>
#include <cstdlib>
#include <cstring>
#include <cerrno>
#include <new>
#include <unistd.h>
#include <dlfcn.h>
#include "dsim.h"

extern "C" {
void* __libc_malloc(size_t); void __libc_free(void*); void* __libc_calloc(size_t, size_t); void* __libc_realloc(void*, size_t); void* __libc_memalign(size_t, size_t);
}

namespace dsim {
thread_local int t_bypass = 0;
thread_local bool t_sim = false;
void tso_drain_range(const void* p, size_t n);

static char* const A_BASE = (char*)0x300000000000ULL;
static const size_t A_SIZE = 256u << 20;
static const uint32_t MAGIC_LIVE = 0xA11C0DE5u, MAGIC_FREE = 0xF4EEB10Cu;
struct Hdr { uint32_t magic; uint32_t cls; uint32_t size; uint32_t back; };   // 16 bytes, directly before the payload
struct FreeNode { FreeNode* next; };
static const int NCLS = 96;
static bool g_mapped, g_on; static volatile bool g_run;
static size_t g_bump, g_high; static FreeNode* g_free[NCLS];
static const int QMAX = 64; static void* g_quar[QMAX]; static int g_qn, g_qdelay;
static uint64_t g_allocs, g_live, g_peak_bytes;
// liveness map, one byte per 16-byte granule of payload: 0 unknown (headers, padding, never handed out), 1 live, 2 freed.
// Lets the instrumented atomics report an access to memory that has been given back to the allocator.
static unsigned char* g_map;
static inline void mark(const void* p, size_t n, unsigned char v) { size_t a = ((const char*)p - A_BASE) >> 4, b = ((const char*)p - A_BASE + n + 15) >> 4; memset(g_map + a, v, b - a); }

static inline size_t cls_size(int c) { return c < 64 ? (size_t)(c + 1) * 16 : (size_t)2048 << (c - 64); }
static inline int cls_of(size_t n) { if (n <= 1024) return n == 0 ? 0 : (int)((n - 1) / 16); int c = 64; size_t s = 2048; while (s < n) { s <<= 1; ++c; } return c; }

static void map_once() {
    if (g_mapped) return;
    void* p = mmap(A_BASE, A_SIZE, PROT_READ | PROT_WRITE, MAP_PRIVATE | MAP_ANONYMOUS | MAP_FIXED_NOREPLACE | MAP_NORESERVE, -1, 0);
    if (p != (void*)A_BASE) { fprintf(stderr, "dsim: cannot map arena at fixed address\n"); _exit(2); }
    g_map = (unsigned char*)mmap(nullptr, A_SIZE >> 4, PROT_READ | PROT_WRITE, MAP_PRIVATE | MAP_ANONYMOUS | MAP_NORESERVE, -1, 0);
    if (g_map == (unsigned char*)MAP_FAILED) { fprintf(stderr, "dsim: cannot map arena liveness map\n"); _exit(2); }
    g_mapped = true;
}
void arena_begin_run(bool enabled, int delay) {
    map_once();
    if (g_high) { memset(A_BASE, 0, g_high); memset(g_map, 0, (g_high >> 4) + 1); }
    g_bump = 0; g_high = 0; memset(g_free, 0, sizeof g_free); g_qn = 0; g_qdelay = delay > QMAX ? QMAX : delay;
    g_allocs = g_live = g_peak_bytes = 0; g_on = enabled; g_run = true;
}
void arena_end_run() { g_run = false; }
void arena_stats(uint64_t* allocs, uint64_t* live, uint64_t* peak) { *allocs = g_allocs; *live = g_live; *peak = g_high; }
bool arena_is_freed(const void* p) { return g_run && (const char*)p >= A_BASE && (const char*)p < A_BASE + g_high && g_map[((const char*)p - A_BASE) >> 4] == 2; }
bool arena_contains(const void* p) { return (const char*)p >= A_BASE && (const char*)p < A_BASE + A_SIZE; }
static inline bool use_arena() { return g_run && g_on && t_sim && t_bypass == 0; }

static void* raw_alloc(int c) {
    if (FreeNode* f = g_free[c]) { g_free[c] = f->next; return f; }
    size_t need = cls_size(c) + sizeof(Hdr);
    if (g_bump + need > A_SIZE) { fprintf(stderr, "dsim: arena exhausted\n"); _exit(4); }   // exit code 4 = BUDGET (arena)
    char* p = A_BASE + g_bump; g_bump += need; if (g_bump > g_high) g_high = g_bump;
    return p;
}
void* arena_alloc(size_t size, size_t align) {
    if (align < 16) align = 16;
    size_t need = size + (align > 16 ? align : 0);
    int c = cls_of(need); char* blk = (char*)raw_alloc(c);
    char* pay = blk + sizeof(Hdr);
    if (align > 16) pay = (char*)(((uintptr_t)pay + align - 1) & ~(uintptr_t)(align - 1));
    Hdr* h = (Hdr*)(pay - sizeof(Hdr)); h->magic = MAGIC_LIVE; h->cls = (uint32_t)c; h->size = (uint32_t)size; h->back = (uint32_t)(pay - blk);
    ++g_allocs; ++g_live; mark(pay, size ? size : 1, 1);
    return pay;
}
static void release(void* pay) {
    Hdr* h = (Hdr*)((char*)pay - sizeof(Hdr)); int c = (int)h->cls; char* blk = (char*)pay - h->back;
    FreeNode* f = (FreeNode*)blk; f->next = g_free[c]; g_free[c] = f;
}
void arena_free(void* p) {
    if (!g_run) return;   // late free after the run ended (TLS destructors, harness state): the arena is reset anyway
    Hdr* h = (Hdr*)((char*)p - sizeof(Hdr));
    if (h->magic != MAGIC_LIVE) { fprintf(stderr, "dsim: invalid or double free of arena block %p (magic %x)\n", p, h->magic); abort(); }
    h->magic = MAGIC_FREE; --g_live;
    tso_drain_range(p, h->size);
    mark(p, h->size ? h->size : 1, 2);
    memset(p, 0xDD, h->size);   // poison: a stale reader sees 0xDD.. (fast flavour)
    if (g_qdelay > 0) { if (g_qn == g_qdelay) { void* old = g_quar[0]; memmove(&g_quar[0], &g_quar[1], sizeof(void*) * (g_qn - 1)); --g_qn; release(old); } g_quar[g_qn++] = p; }
    else release(p);
}
size_t arena_usable(const void* p) { const Hdr* h = (const Hdr*)((const char*)p - sizeof(Hdr)); return h->size; }
} // namespace dsim

using namespace dsim;

extern "C" {
void* malloc(size_t n) { if (use_arena()) { drain_self(); return arena_alloc(n, 16); } return __libc_malloc(n); }
void free(void* p) { if (!p) return; if (arena_contains(p)) { if (t_sim) drain_self(); arena_free(p); return; } __libc_free(p); }
void* calloc(size_t a, size_t b) { if (use_arena()) { size_t n = a * b; drain_self(); void* p = arena_alloc(n, 16); memset(p, 0, n); return p; } return __libc_calloc(a, b); }
void* realloc(void* p, size_t n) {
    if (p && arena_contains(p)) { size_t o = arena_usable(p); void* q = malloc(n); if (q) memcpy(q, p, o < n ? o : n); free(p); return q; }
    if (!p && use_arena()) return malloc(n);
    return __libc_realloc(p, n);
}
void* memalign(size_t al, size_t n) { if (use_arena()) { drain_self(); return arena_alloc(n, al); } return __libc_memalign(al, n); }
void* aligned_alloc(size_t al, size_t n) { return memalign(al, n); }
int posix_memalign(void** out, size_t al, size_t n) { void* p = memalign(al, n); if (!p) return ENOMEM; *out = p; return 0; }
size_t malloc_usable_size(void* p) {
    if (!p) return 0; if (arena_contains(p)) return arena_usable(p);
    static size_t (*real)(void*) = (size_t(*)(void*))dlsym(RTLD_NEXT, "malloc_usable_size");
    return real ? real(p) : 0;
}
}

void* operator new(size_t n) { void* p = malloc(n ? n : 1); if (!p) throw std::bad_alloc(); return p; }
void* operator new[](size_t n) { void* p = malloc(n ? n : 1); if (!p) throw std::bad_alloc(); return p; }
void* operator new(size_t n, const std::nothrow_t&) noexcept { return malloc(n ? n : 1); }
void* operator new[](size_t n, const std::nothrow_t&) noexcept { return malloc(n ? n : 1); }
void operator delete(void* p) noexcept { free(p); }
void operator delete[](void* p) noexcept { free(p); }
void operator delete(void* p, size_t) noexcept { free(p); }
void operator delete[](void* p, size_t) noexcept { free(p); }
void operator delete(void* p, const std::nothrow_t&) noexcept { free(p); }
void operator delete[](void* p, const std::nothrow_t&) noexcept { free(p); }
