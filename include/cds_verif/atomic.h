// Instrumented replacement for std::atomic, selected by hook H1 (-DKHIZMAX_LIBCDS_VERIF) in
// cds/algo/atomic.h.  Same layout as std::atomic<T> (exactly one T, trivially destructible, no
// side table).  Every operation is bracketed by two schedule points of the deterministic
// simulator (/verif/dsim); because the simulator lets exactly one simulated thread run at a
// time, the operation itself is a plain read / modify / write.
#pragma once
#include <atomic>
#include <cstddef>
#include <cstdint>
#include <cstring>
#include <type_traits>

extern "C" {
void cds_verif_pre(int kind, const void* addr) noexcept;
void cds_verif_post(int kind, const void* addr, int wrote) noexcept;
int  cds_verif_cas_weak_fail() noexcept;  // fault F1: 1 = this weak CAS fails spuriously
int  cds_verif_tso_load(const void* addr, unsigned size, void* out) noexcept;  // fault F2: 1 = *out filled with a stale value
void cds_verif_tso_store(const void* addr, unsigned size, const void* oldv, const void* newv, int seq_cst) noexcept;
void cds_verif_tso_rmw(const void* addr, unsigned size) noexcept;  // drains own buffer and foreign entries on addr
}

namespace cds_verif { namespace atomics {
    using std::memory_order;
    using std::memory_order_relaxed;
    using std::memory_order_consume;
    using std::memory_order_acquire;
    using std::memory_order_release;
    using std::memory_order_acq_rel;
    using std::memory_order_seq_cst;

    enum { K_LOAD = 1, K_STORE = 2, K_RMW = 3, K_FENCE = 4 };

    namespace detail {
        template <typename T>
        struct base {
            T v_;
            base() noexcept = default;
            constexpr base(T v) noexcept : v_(v) {}
            base(const base&) = delete;
            base& operator=(const base&) = delete;
            base& operator=(const base&) volatile = delete;

            bool is_lock_free() const volatile noexcept { return true; }
            const void* a() const volatile noexcept { return const_cast<const void*>(static_cast<const volatile void*>(&v_)); }
            void* wa() volatile noexcept { return const_cast<void*>(static_cast<volatile void*>(&v_)); }

            T load(memory_order = memory_order_seq_cst) const volatile noexcept {
                cds_verif_pre(K_LOAD, a());
                typename std::aligned_storage<sizeof(T), alignof(T)>::type buf;
                if (!cds_verif_tso_load(a(), sizeof(T), &buf)) std::memcpy(&buf, a(), sizeof(T));
                cds_verif_post(K_LOAD, a(), 0);
                return *reinterpret_cast<T*>(&buf);  // built with -fno-strict-aliasing
            }
            void store(T d, memory_order o = memory_order_seq_cst) volatile noexcept {
                cds_verif_pre(K_STORE, a());
                typename std::aligned_storage<sizeof(T), alignof(T)>::type oldv;
                std::memcpy(&oldv, a(), sizeof(T));
                cds_verif_tso_store(a(), sizeof(T), &oldv, (const void*)&d, o == memory_order_seq_cst);
                std::memcpy(wa(), (const void*)&d, sizeof(T));
                cds_verif_post(K_STORE, a(), 1);
            }
            T exchange(T d, memory_order = memory_order_seq_cst) volatile noexcept {
                cds_verif_pre(K_RMW, a());
                cds_verif_tso_rmw(a(), sizeof(T));
                typename std::aligned_storage<sizeof(T), alignof(T)>::type buf;
                std::memcpy(&buf, a(), sizeof(T));
                std::memcpy(wa(), (const void*)&d, sizeof(T));
                cds_verif_post(K_RMW, a(), 1);
                return *reinterpret_cast<T*>(&buf);
            }
            bool cas_(T& e, T d, bool weak) volatile noexcept {
                cds_verif_pre(K_RMW, a());
                cds_verif_tso_rmw(a(), sizeof(T));
                bool ok = false;
                if (std::memcmp(a(), (const void*)&e, sizeof(T)) == 0) {
                    if (!(weak && cds_verif_cas_weak_fail())) { std::memcpy(wa(), (const void*)&d, sizeof(T)); ok = true; }
                } else
                    std::memcpy((void*)&e, a(), sizeof(T));
                cds_verif_post(K_RMW, a(), ok ? 1 : 0);
                return ok;
            }
            bool compare_exchange_strong(T& e, T d, memory_order, memory_order) volatile noexcept { return cas_(e, d, false); }
            bool compare_exchange_strong(T& e, T d, memory_order = memory_order_seq_cst) volatile noexcept { return cas_(e, d, false); }
            bool compare_exchange_weak(T& e, T d, memory_order, memory_order) volatile noexcept { return cas_(e, d, true); }
            bool compare_exchange_weak(T& e, T d, memory_order = memory_order_seq_cst) volatile noexcept { return cas_(e, d, true); }
            operator T() const volatile noexcept { return load(); }
        };

        template <typename T>
        struct integral : base<T> {
            integral() noexcept = default;
            constexpr integral(T v) noexcept : base<T>(v) {}
#define CDSV_RMW(name, expr)                                                         \
            T name(T x, memory_order = memory_order_seq_cst) volatile noexcept {     \
                cds_verif_pre(K_RMW, this->a());                                     \
                cds_verif_tso_rmw(this->a(), sizeof(T));                             \
                T o; std::memcpy(&o, this->a(), sizeof(T));                          \
                T n = (T)(expr); std::memcpy(this->wa(), &n, sizeof(T));             \
                cds_verif_post(K_RMW, this->a(), 1);                                 \
                return o;                                                            \
            }
            CDSV_RMW(fetch_add, o + x)
            CDSV_RMW(fetch_sub, o - x)
            CDSV_RMW(fetch_and, o & x)
            CDSV_RMW(fetch_or, o | x)
            CDSV_RMW(fetch_xor, o ^ x)
#undef CDSV_RMW
            T operator++() volatile noexcept { return (T)(fetch_add(1) + 1); }
            T operator++(int) volatile noexcept { return fetch_add(1); }
            T operator--() volatile noexcept { return (T)(fetch_sub(1) - 1); }
            T operator--(int) volatile noexcept { return fetch_sub(1); }
            T operator+=(T x) volatile noexcept { return (T)(fetch_add(x) + x); }
            T operator-=(T x) volatile noexcept { return (T)(fetch_sub(x) - x); }
            T operator&=(T x) volatile noexcept { return (T)(fetch_and(x) & x); }
            T operator|=(T x) volatile noexcept { return (T)(fetch_or(x) | x); }
            T operator^=(T x) volatile noexcept { return (T)(fetch_xor(x) ^ x); }
        };

        template <typename T, bool Integral = std::is_integral<T>::value && !std::is_same<T, bool>::value>
        struct select { typedef base<T> type; };
        template <typename T>
        struct select<T, true> { typedef integral<T> type; };
    } // namespace detail

    template <typename T>
    struct atomic : detail::select<T>::type {
        typedef typename detail::select<T>::type base_type;
        atomic() noexcept = default;
        constexpr atomic(T v) noexcept : base_type(v) {}
        T operator=(T d) volatile noexcept { this->store(d); return d; }
    };

    template <typename T>
    struct atomic<T*> : detail::base<T*> {
        atomic() noexcept = default;
        constexpr atomic(T* v) noexcept : detail::base<T*>(v) {}
        T* operator=(T* d) volatile noexcept { this->store(d); return d; }
        T* fetch_add(ptrdiff_t x, memory_order = memory_order_seq_cst) volatile noexcept {
            cds_verif_pre(K_RMW, this->a());
            cds_verif_tso_rmw(this->a(), sizeof(T*));
            T* o; std::memcpy(&o, this->a(), sizeof(T*));
            T* n = o + x; std::memcpy(this->wa(), &n, sizeof(T*));
            cds_verif_post(K_RMW, this->a(), 1);
            return o;
        }
        T* fetch_sub(ptrdiff_t x, memory_order o = memory_order_seq_cst) volatile noexcept { return fetch_add(-x, o); }
        T* operator++() volatile noexcept { return fetch_add(1) + 1; }
        T* operator++(int) volatile noexcept { return fetch_add(1); }
        T* operator--() volatile noexcept { return fetch_sub(1) - 1; }
        T* operator--(int) volatile noexcept { return fetch_sub(1); }
        T* operator+=(ptrdiff_t x) volatile noexcept { return fetch_add(x) + x; }
        T* operator-=(ptrdiff_t x) volatile noexcept { return fetch_sub(x) - x; }
    };

    inline void atomic_thread_fence(memory_order o) noexcept {
        cds_verif_pre(K_FENCE, nullptr);
        if (o == memory_order_seq_cst) cds_verif_tso_rmw(nullptr, 0);
        cds_verif_post(K_FENCE, nullptr, 0);
    }
    inline void atomic_signal_fence(memory_order) noexcept {}

    typedef atomic<bool> atomic_bool;
    typedef atomic<int> atomic_int;
    typedef atomic<unsigned> atomic_uint;
    typedef atomic<long> atomic_long;
    typedef atomic<unsigned long> atomic_ulong;
    typedef atomic<size_t> atomic_size_t;
    typedef atomic<uint32_t> atomic_uint32_t;
    typedef atomic<uint64_t> atomic_uint64_t;
    typedef atomic<intptr_t> atomic_intptr_t;
    typedef atomic<uintptr_t> atomic_uintptr_t;
}} // namespace cds_verif::atomics
