# Per-property check configuration: subjects (name, quick runs, thorough runs) and texts for MANIFEST.json.
def GROUP_OF(subject):
    return subject.split(".")[0]

SMR_ASSUME = ["harness respects documented preconditions (HP retired capacity > H*T, at most T attached threads, unlink strictly before retire)"]

CHECKS = {
    "C01": dict(
        subjects=[("smr.HP", 40000, 1500000)],
        classes=["freed-while-guarded", "deref-after-dispose"],
        expect_probes=["disposed_during_run", "odd_address_objects", "reattach", "scan_ops"],
        assumptions=SMR_ASSUME,
        title="HP never frees a guarded object",
        technique="deterministic simulation (seeded schedules, weak-CAS / x86-TSO store-buffer / stall / thread-churn faults) with an online disposal-vs-guard oracle",
    ),
    "C02": dict(
        subjects=[("smr.DHP", 30000, 1000000)],
        classes=["freed-while-guarded", "deref-after-dispose"],
        expect_probes=["disposed_during_run", "reattach", "scan_ops"],
        assumptions=SMR_ASSUME,
        title="DHP never frees a guarded object",
        technique="deterministic simulation (seeded schedules, weak-CAS / x86-TSO store-buffer / stall / thread-churn faults) with an online disposal-vs-guard oracle",
    ),
    "C03": dict(
        subjects=[("smr.HP", 25000, 800000), ("smr.DHP", 20000, 600000)],
        classes=["double-dispose", "never-disposed", "scan-kept-unguarded", "dispose-not-retired", "dispose-unknown"],
        expect_probes=["disposed_during_run", "disposed_at_singleton_destruction", "scan_ops"],
        assumptions=SMR_ASSUME,
        title="HP/DHP dispose every retired object exactly once",
        technique="deterministic simulation with per-object disposer counting, scan-frees-unguarded interval oracle and singleton-destruction check",
    ),
    "C04": dict(
        subjects=[("smr.RCU_gpi", 8000, 300000), ("smr.RCU_gpb", 8000, 300000), ("smr.RCU_gpt", 6000, 200000), ("smr.RCU_shb", 6000, 200000)],
        classes=["reclaimed-under-reader", "synchronize-returned-early", "deref-after-dispose"],
        expect_probes=["disposed_during_run", "critical_sections", "synchronize_ops", "batch_retire_ops", "reattach"],
        assumptions=["RCU API calls that may synchronise are never made under a reader lock (documented protocol)"],
        title="RCU never reclaims under a pre-existing reader",
        technique="deterministic simulation (seeded schedules; stalled readers, x86-TSO store buffer, spurious condvar wake-ups, delayed signals, thread churn) with a disposal-vs-critical-section interval oracle",
    ),
    "C05": dict(
        subjects=[("smr.RCU_gpi", 5000, 200000), ("smr.RCU_gpb", 8000, 300000), ("smr.RCU_gpt", 6000, 200000), ("smr.RCU_shb", 6000, 200000)],
        classes=["double-dispose", "never-disposed", "dispose-not-retired", "dispose-unknown"],
        fatal_classes_as_violation=["hang"],
        expect_probes=["disposed_during_run", "disposed_at_singleton_destruction", "batch_retire_ops"],
        assumptions=["RCU API calls that may synchronise are never made under a reader lock (documented protocol)"],
        title="RCU disposes every retired object exactly once",
        technique="deterministic simulation with per-object disposer counting through singleton destruction; a run that can never finish (lost buffer entry) counts as a violation",
    ),
    "C06": dict(
        subjects=[(n, 1500, 40000) for n in [
            "queue.MSQueue_HP", "queue.MSQueue_DHP", "queue.MSQueue_HP_ic_seqcst_stat", "queue.MoirQueue_HP", "queue.MoirQueue_DHP",
            "queue.BasketQueue_HP", "queue.BasketQueue_DHP", "queue.OptimisticQueue_HP", "queue.OptimisticQueue_DHP",
            "queue.iMSQueue_HP", "queue.iMSQueue_DHP", "queue.iMoirQueue_HP", "queue.iBasketQueue_HP", "queue.iBasketQueue_DHP",
            "queue.iOptimisticQueue_HP", "queue.iOptimisticQueue_DHP", "queue.RWQueue_spin", "queue.RWQueue_mutex_ic",
            "queue.FCQueue_backoff", "queue.FCQueue_list_elim", "queue.FCQueue_wait_empty", "queue.FCQueue_elim_smsc", "queue.FCQueue_smmc",
            "queue.FCQueue_elim_mmmc", "queue.iFCQueue_list", "queue.iFCQueue_slist_elim"]],
        classes=["not-linearizable", "double-dispose", "never-disposed"],
        expect_probes=["F10_eager_reclaim", "stat_bad_tail", "fc_combining_passes", "fc_collided", "intrusive_nodes"],
        title="Unbounded MPMC queues are linearizable FIFO queues",
        technique="deterministic simulation (seeded schedules; weak-CAS, stall, thread-churn, early-timeout, spurious-wake-up, eager-reclamation faults) + Wing-Gong linearizability check of each recorded history against a sequential FIFO model",
    ),
}

NOT_APPLICABLE = [
    {"property_id": "C25", "reason": "Bit-manipulation helpers are pure functions of their arguments: no schedule, clock, fault or shared state for a simulator to own (exhaustive sweeps or SMT would decide it; both are other techniques)."},
    {"property_id": "C26", "reason": "bit_reverse_counter inc/dec is a pure sequential function of the call sequence of one caller; nothing to simulate."},
    {"property_id": "C27", "reason": "Split-order key encoding is arithmetic on (hash, table size); nothing to simulate."},
    {"property_id": "C28", "reason": "Feldman layout normalisation and path divergence are pure functions of (hash bytes, bit widths); the concurrent face of the same code is exercised under C14/C17."},
]
