# Per-property check configuration: subjects (name, quick runs, thorough runs) and texts for MANIFEST.json.
from subjects_index import SUBJECTS as _S

def GROUP_OF(subject):
    return subject.split(".")[0]

SMR_ASSUME = ["harness respects documented preconditions (HP retired capacity > H*T, at most T attached threads, unlink strictly before retire)"]

CHECKS = {
    "C01": dict(
        subjects=[("smr.HP", 40000, 1500000)],
        classes=["freed-while-guarded", "deref-after-dispose"],
        expect_probes=["disposed_during_run", "odd_address_objects", "reattach", "scan_ops"],
        assumptions=SMR_ASSUME,
        title="HP never frees a guarded object",
        technique="deterministic simulation (seeded schedules, weak-CAS / x86-TSO store-buffer / stall / thread-churn faults) with an online disposal-vs-guard oracle",
    ),
    "C02": dict(
        subjects=[("smr.DHP", 30000, 1000000)],
        classes=["freed-while-guarded", "deref-after-dispose"],
        expect_probes=["disposed_during_run", "reattach", "scan_ops"],
        assumptions=SMR_ASSUME,
        title="DHP never frees a guarded object",
        technique="deterministic simulation (seeded schedules, weak-CAS / x86-TSO store-buffer / stall / thread-churn faults) with an online disposal-vs-guard oracle",
    ),
    "C03": dict(
        subjects=[("smr.HP", 25000, 800000), ("smr.DHP", 20000, 600000)],
        classes=["double-dispose", "never-disposed", "scan-kept-unguarded", "dispose-not-retired", "dispose-unknown"],
        expect_probes=["disposed_during_run", "disposed_at_singleton_destruction", "scan_ops"],
        assumptions=SMR_ASSUME,
        title="HP/DHP dispose every retired object exactly once",
        technique="deterministic simulation with per-object disposer counting, scan-frees-unguarded interval oracle and singleton-destruction check",
    ),
    "C04": dict(
        subjects=[("smr.RCU_gpi", 8000, 300000), ("smr.RCU_gpb", 8000, 300000), ("smr.RCU_gpt", 20000, 300000), ("smr.RCU_shb", 6000, 200000)],
        classes=["reclaimed-under-reader", "synchronize-returned-early", "deref-after-dispose"],
        unit=40,   # general_threaded deadlocks (two concurrent synchronize() callers, a liveness defect outside the listed properties) end a worker about once in 50 gpt runs; small units keep the completed runs countable
        expect_probes=["disposed_during_run", "critical_sections", "synchronize_ops", "batch_retire_ops", "reattach"],
        assumptions=["RCU API calls that may synchronise are never made under a reader lock (documented protocol)"],
        title="RCU never reclaims under a pre-existing reader",
        technique="deterministic simulation (seeded schedules; stalled readers, x86-TSO store buffer, spurious condvar wake-ups, delayed signals, thread churn) with a disposal-vs-critical-section interval oracle",
    ),
    "C05": dict(
        subjects=[("smr.RCU_gpi", 5000, 200000), ("smr.RCU_gpb", 8000, 300000), ("smr.RCU_gpt", 20000, 300000), ("smr.RCU_shb", 6000, 200000)],
        classes=["double-dispose", "never-disposed", "dispose-not-retired", "dispose-unknown", "reclaimed-under-reader", "synchronize-returned-early"],   # "exactly once, after a grace period"
        unit=40,   # general_threaded deadlocks (two concurrent synchronize() callers, a liveness defect outside the listed properties) end a worker about once in 50 gpt runs; small units keep the completed runs countable
        fatal_classes_as_violation=["hang", "hang-solo"],
        expect_probes=["disposed_during_run", "disposed_at_singleton_destruction", "batch_retire_ops"],
        assumptions=["RCU API calls that may synchronise are never made under a reader lock (documented protocol)"],
        title="RCU disposes every retired object exactly once",
        technique="deterministic simulation with per-object disposer counting through singleton destruction; a run that can never finish (lost buffer entry) counts as a violation",
    ),
    "C06": dict(
        subjects=[(n, 1500, 40000) for n in [
            "queue.MSQueue_HP", "queue.MSQueue_DHP", "queue.MSQueue_HP_ic_seqcst_stat", "queue.MoirQueue_HP", "queue.MoirQueue_DHP",
            "queue.BasketQueue_HP", "queue.BasketQueue_DHP", "queue.OptimisticQueue_HP", "queue.OptimisticQueue_DHP",
            "queue.iMSQueue_HP", "queue.iMSQueue_DHP", "queue.iMoirQueue_HP", "queue.iBasketQueue_HP", "queue.iBasketQueue_DHP",
            "queue.iOptimisticQueue_HP", "queue.iOptimisticQueue_DHP", "queue.RWQueue_spin", "queue.RWQueue_mutex_ic",
            "queue.FCQueue_backoff", "queue.FCQueue_list_elim", "queue.FCQueue_wait_empty", "queue.FCQueue_elim_smsc", "queue.FCQueue_smmc",
            "queue.FCQueue_elim_mmmc", "queue.iFCQueue_list", "queue.iFCQueue_slist_elim"]],
        classes=["not-linearizable", "double-dispose", "never-disposed"],
        fatal_classes_as_violation=["hang-solo"],   # an operation that can never return although every other client has finished: the sequential specification is total
        expect_probes=["F10_eager_reclaim", "stat_bad_tail", "fc_combining_passes", "fc_collided", "intrusive_nodes"],
        title="Unbounded MPMC queues are linearizable FIFO queues",
        technique="deterministic simulation (seeded schedules; weak-CAS, stall, thread-churn, early-timeout, spurious-wake-up, eager-reclamation faults) + Wing-Gong linearizability check of each recorded history against a sequential FIFO model",
    ),
    "C07": dict(
        subjects=[(n, 5000, 150000) for n in ["queue.Vyukov_dyn", "queue.Vyukov_dyn_ic_seqcst", "queue.Vyukov_static4", "queue.Vyukov_single_consumer", "queue.iVyukov"]],
        classes=["not-linearizable"],
        fatal_classes_as_violation=["hang-solo"],   # an operation that can never return although every other client has finished: the sequential specification is total
        title="Bounded Vyukov queue is a linearizable bounded FIFO",
        technique="deterministic simulation (seeded schedules; weak-CAS, stall, thread-churn, early-timeout, spurious-wake-up, eager-reclamation faults) + Wing-Gong linearizability check of each recorded history against a bounded FIFO model of the reported capacity (wrap-around programs)",
    ),
    "C08": dict(
        subjects=[(n, 4000, 100000) for n in ["segq.SegmentedQueue_HP", "segq.SegmentedQueue_DHP", "segq.SegmentedQueue_HP_randperm", "segq.iSegmentedQueue_HP", "segq.iSegmentedQueue_DHP_randperm"]],
        classes=["enqueue-failed", "duplicate-dequeue", "invented-item", "lost-item", "quasi-fifo-bound", "false-empty", "double-dispose"],
        fatal_classes_as_violation=["hang-solo"],   # an operation that can never return although every other client has finished: the sequential specification is total
        expect_probes=["segq_segments_created", "segq_segments_deleted", "F10_eager_reclaim"],
        title="SegmentedQueue conserves items and bounds reordering by the quasi factor",
        technique="deterministic simulation (seeded schedules and faults) + conservation / quasi-FIFO-bound / emptiness interval oracles over the step-stamped history",
    ),
    "C09": dict(
        subjects=[(n, 2500, 50000) for n in ["stack.Treiber_HP", "stack.Treiber_DHP", "stack.Treiber_HP_elim1", "stack.Treiber_HP_elim2", "stack.Treiber_DHP_elim4", "stack.Treiber_HP_elim_dyn",
                  "stack.Treiber_DHP_elim_dyn", "stack.iTreiber_HP", "stack.iTreiber_DHP", "stack.iTreiber_HP_elim", "stack.iTreiber_DHP_elim", "stack.FCStack_deque", "stack.FCStack_vector_elim",
                  "stack.FCStack_list_elim_smmc", "stack.FCStack_mmmc", "stack.iFCStack_list", "stack.iFCStack_list_elim"]],
        classes=["not-linearizable"],
        fatal_classes_as_violation=["hang-solo"],   # an operation that can never return although every other client has finished: the sequential specification is total
        expect_probes=["elim_active_collision", "elim_passive_collision", "fc_collided", "F10_eager_reclaim"],
        title="Stacks are linearizable LIFO stacks, with or without elimination",
        technique="deterministic simulation (seeded schedules; weak-CAS, stall, thread-churn, early-timeout, spurious-wake-up, eager-reclamation faults) + Wing-Gong linearizability check of each recorded history against a sequential LIFO model (elimination collisions provoked through simulated back-off sleeps)",
    ),
    "C10": dict(
        subjects=[(n, 4000, 100000) for n in ["deque.FCDeque_std", "deque.FCDeque_std_elim", "deque.FCDeque_boost_elim_smsc", "deque.FCDeque_boost_mmmc", "deque.FCDeque_std_elim_nowait"]],
        classes=["not-linearizable"],
        fatal_classes_as_violation=["hang-solo"],   # an operation that can never return although every other client has finished: the sequential specification is total
        expect_probes=["fc_collided", "fc_combining_passes", "fc_pubrecords_deleted"],
        title="FCDeque is a linearizable double-ended queue",
        technique="deterministic simulation (seeded schedules; weak-CAS, stall, thread-churn, early-timeout, spurious-wake-up, eager-reclamation faults) + Wing-Gong linearizability check of each recorded history against a sequential deque model",
    ),
    "C11": dict(
        subjects=[(n, 4000, 100000) for n in ["pq.FCPriorityQueue_vector", "pq.FCPriorityQueue_deque_smsc", "pq.FCPriorityQueue_stable_vector_mmmc", "pq.MSPriorityQueue_spin", "pq.MSPriorityQueue_mutex",
                  "pq.MSPriorityQueue_static8", "pq.iMSPriorityQueue"]],
        classes=["not-linearizable"],
        fatal_classes_as_violation=["hang-solo"],   # an operation that can never return although every other client has finished: the sequential specification is total
        expect_probes=["mspq_push_failed", "mspq_push_heapify_swaps", "fc_combining_passes"],
        title="Priority queues conserve items and honour priority order",
        technique="deterministic simulation (seeded schedules; weak-CAS, stall, thread-churn, early-timeout, spurious-wake-up, eager-reclamation faults) + Wing-Gong linearizability check of each recorded history against a max-priority multiset (FCPriorityQueue; MSPriorityQueue in phased programs with a simulator barrier) or a bag with capacity (MSPriorityQueue mixed programs)",
    ),
    "C15": dict(
        subjects=[(n, 1500, 30000) for n in _S["tree"]],
        classes=["not-linearizable", "functor-call-count", "functor-overlap", "freed-element-observed", "traversal-order", "traversal-mismatch", "size-mismatch", "inconsistent-structure", "avl-imbalance-behind-routing-node", "avl-imbalance-after-concurrent-updates", "extract-minmax-false-empty", "extract-minmax-order", "double-dispose", "never-disposed", "dispose-not-inserted"],
        fatal_classes_as_violation=["hang-solo"],   # an operation that can never return although every other client has finished: the sequential specification is total
        expect_probes=["bronson_rotations", "F10_eager_reclaim", "quiescent_traversals"],
        title="Skip lists and trees are linearizable ordered sets and maps",
        technique="deterministic simulation (seeded schedules and faults, forced skip-list tower heights) + Wing-Gong linearizability check against an ordered key->instance map, relaxed interval oracle for extract_min/extract_max, quiescent structure checks",
    ),
    "C13": dict(
        subjects=[(n, 1200, 30000) for n in _S["list"]],
        classes=["not-linearizable", "functor-call-count", "functor-overlap", "freed-element-observed", "traversal-order", "traversal-mismatch", "size-mismatch", "inconsistent-structure", "avl-imbalance-behind-routing-node", "avl-imbalance-after-concurrent-updates", "extract-minmax-false-empty", "extract-minmax-order", "double-dispose", "never-disposed", "dispose-not-inserted"],
        fatal_classes_as_violation=["hang-solo"],   # an operation that can never return although every other client has finished: the sequential specification is total
        expect_probes=["F10_eager_reclaim", "quiescent_traversals"],
        title="Ordered lists are linearizable sets and maps",
        technique="deterministic simulation (seeded schedules; weak-CAS, stall, thread-churn, eager-reclamation, RCU signal/condvar faults; degenerate hashes and minimal capacities as knobs) + Wing-Gong linearizability check of each recorded history against a key->instance map model, plus quiescent traversal/size/consistency checks",
    ),
    "C14": dict(
        subjects=[(n, 800, 20000) for n in _S["hash"]],
        classes=["not-linearizable", "functor-call-count", "functor-overlap", "freed-element-observed", "traversal-order", "traversal-mismatch", "size-mismatch", "inconsistent-structure", "avl-imbalance-behind-routing-node", "avl-imbalance-after-concurrent-updates", "extract-minmax-false-empty", "extract-minmax-order", "double-dispose", "never-disposed", "dispose-not-inserted"],
        fatal_classes_as_violation=["hang-solo"],   # an operation that can never return although every other client has finished: the sequential specification is total
        expect_probes=["split_bucket_inits", "split_bucket_init_contention", "feldman_array_nodes_expanded", "feldman_slot_converting", "F10_eager_reclaim"],
        title="Hash sets and maps are linearizable, including during growth",
        technique="deterministic simulation (seeded schedules; weak-CAS, stall, thread-churn, eager-reclamation, RCU signal/condvar faults; degenerate hashes and minimal capacities as knobs) + Wing-Gong linearizability check of each recorded history against a key->instance map model, plus quiescent traversal/size/consistency checks",
    ),
    "C16": dict(
        subjects=[(n, 1200, 30000) for n in _S["lockset"]],
        classes=["not-linearizable", "functor-call-count", "functor-overlap", "freed-element-observed", "traversal-order", "traversal-mismatch", "size-mismatch", "inconsistent-structure", "avl-imbalance-behind-routing-node", "avl-imbalance-after-concurrent-updates", "extract-minmax-false-empty", "extract-minmax-order", "double-dispose", "never-disposed", "dispose-not-inserted"],
        fatal_classes_as_violation=["hang-solo"],   # an operation that can never return although every other client has finished: the sequential specification is total
        expect_probes=["cuckoo_relocate_calls", "cuckoo_resize_calls"],
        title="Lock-based hash containers are linearizable across concurrent resizes",
        technique="deterministic simulation (seeded schedules; weak-CAS, stall, thread-churn, eager-reclamation, RCU signal/condvar faults; degenerate hashes and minimal capacities as knobs) + Wing-Gong linearizability check of each recorded history against a key->instance map model, plus quiescent traversal/size/consistency checks",
    ),
    "C17": dict(
        subjects=[(n, 800, 20000) for n in _S["lockset"] + [x for x in _S["hash"] if "SplitList" in x or "Feldman" in x]],
        classes=["not-linearizable", "functor-call-count", "functor-overlap", "freed-element-observed", "traversal-order", "traversal-mismatch", "size-mismatch", "inconsistent-structure", "avl-imbalance-behind-routing-node", "avl-imbalance-after-concurrent-updates", "extract-minmax-false-empty", "extract-minmax-order", "double-dispose", "never-disposed", "dispose-not-inserted"],
        fatal_classes_as_violation=["hang-solo"],   # an operation that can never return although every other client has finished: the sequential specification is total
        expect_probes=["cuckoo_relocate_calls", "cuckoo_resize_calls", "split_bucket_inits", "feldman_array_nodes_expanded"],
        assumptions=["degenerate hashes are bounded to what the documented algorithms can hold (CuckooSet: at most arity x probe-set size keys per hash tuple); the 1-thread slice of the batch is plain seeded input generation"],
        title="Resize and rehash never lose or duplicate elements for any hash functions",
        technique="deterministic simulation of 1-3 threads of insert-heavy programs under degenerate (constant / one-bit / shared-prefix) hash functions and minimal capacities, so that relocation, resize, bucket initialisation and array-node expansion race with the operations; oracle: linearizability vs key->instance map + quiescent find of every key + size()",
    ),
    "C18": dict(
        subjects=[(n, 700, 15000) for n in _S["list"] + _S["tree"] + [x for x in _S["hash"] if "SplitList" in x]],
        classes=["traversal-order", "traversal-mismatch", "size-mismatch", "inconsistent-structure", "avl-imbalance-behind-routing-node", "avl-imbalance-after-concurrent-updates", "not-linearizable", "use-after-free"],
        expect_probes=["quiescent_traversals", "bronson_rotations"],
        title="Quiescent structure is well-formed and traversal is exact",
        technique="deterministic simulation of longer concurrent phases (up to 4 threads x 8 ops) followed by quiescence; oracle: traversal visits exactly the keys that find() sees, strictly increasing where ordered, size()/empty() agree, EllenBinTree/Bronson check_consistency(), Bronson search order and AVL balance from recomputed heights",
    ),
    "C20": dict(
        subjects=[(n, 250, 5000) for n in _S["list"] + _S["hash"] + _S["tree"] + _S["lockset"] + _S["queue"] + _S["stack"] + _S["deque"] + _S["pq"] + [x for x in _S["misc"] if "WeakRingBuffer" in x]],
        classes=["not-linearizable", "functor-call-count", "functor-overlap", "freed-element-observed", "traversal-order", "traversal-mismatch", "size-mismatch", "inconsistent-structure", "avl-imbalance-behind-routing-node", "avl-imbalance-after-concurrent-updates", "extract-minmax-false-empty", "extract-minmax-order", "double-dispose", "never-disposed", "dispose-not-inserted", "push-failed-with-space", "pop-failed-with-data", "wrong-element", "element-lost", "pop-front-failed", "wrong-record-size", "wrong-record-bytes"] + ["not-linearizable"],
        fatal_classes_as_violation=["hang-solo"],   # an operation that can never return although every other client has finished: the sequential specification is total
        assumptions=["one simulated client thread: the schedule space is a point; what the simulator adds is spurious weak-CAS failure, forced skip-list tower heights, seeded rand()/clock, SMR knobs and eager reclamation; the rest is plain seeded generation of operation sequences (stated in DESIGN.md)"],
        title="Single-threaded API behaviour matches the reference container model",
        technique="seeded generation of single-thread operation sequences (8-36 ops) executed under the simulator with weak-CAS failure injection and knob randomisation; each result (return value, update pair, functor instance/new-flag/call count, pop order, final contents, size/empty) compared with the sequential reference model",
    ),
    "C12": dict(
        subjects=[(n, 8000, 300000) for n in ["misc.WeakRingBuffer_pow2", "misc.WeakRingBuffer_anysize", "misc.WeakRingBuffer_dtor_pow2", "misc.WeakRingBuffer_dtor_anysize", "misc.WeakRingBuffer_void_pow2", "misc.WeakRingBuffer_void_anysize"]],
        classes=["push-failed-with-space", "pop-failed-with-data", "wrong-element", "element-lost", "pop-front-failed", "wrong-record-size", "wrong-record-bytes"],
        title="WeakRingBuffer is an exact SPSC FIFO for fixed and variable-size records",
        technique="deterministic simulation of one producer and one consumer (seeded schedules, x86-TSO store buffer, stalls) with an online exact FIFO oracle (k-th pop delivers the k-th push, byte-exact records) and layout-independent failure rules",
    ),
    "C19": dict(
        subjects=[(n, 5000, 100000) for n in ["misc.iter_IterableList_HP", "misc.iter_IterableList_DHP", "misc.iter_MichaelSet_Iterable_HP", "misc.iter_MichaelSet_Iterable_DHP", "misc.iter_SplitListSet_Iterable_HP",
                  "misc.iter_SplitListSet_Iterable_DHP", "misc.iter_FeldmanHashSet_HP", "misc.iter_FeldmanHashSet_DHP", "misc.iter_FeldmanHashSet_RCU_gpb", "misc.iter_FeldmanHashSet_RCU_shb"]],
        classes=["iterator-exposed-disposed", "iterator-exposed-disposed-guard-copy", "iteration-order", "stable-key-missed", "stable-key-twice", "removed-twice", "conservation", "erase_at-false"],
        expect_probes=["F10_eager_reclaim"],
        title="Thread-safe iterators stay valid and complete under concurrent updates",
        technique="deterministic simulation of iterating threads (iterators held across pre-emptions, erase_at) against updater threads; oracle: live-element check on every dereference, coverage of stable keys per walk, removal conservation, erase_at rules",
    ),
    "C21": dict(
        subjects=[(n, 15000, 800000) for n in ["misc.FreeList", "misc.TaggedFreeList", "misc.CachedFreeList_FreeList", "misc.CachedFreeList_TaggedFreeList"]],
        classes=["handed-out-twice", "node-lost", "foreign-node"],
        title="Free lists never hand out a node twice and never lose one",
        technique="deterministic simulation (seeded schedules incl. single pre-emptions inside get(), weak-CAS failures, x86-TSO store buffer, thread churn) with an online ownership-map oracle and quiescent recovery of every node",
    ),
    "C22": dict(
        subjects=[(n, 6000, 300000) for n in ["misc.spin_lock_default", "misc.spin_lock_backoff_empty", "misc.spin_lock_backoff_yield", "misc.spin_lock_backoff_pause", "misc.reentrant_spin32", "misc.reentrant_spin64",
                  "misc.lock_array_mod", "misc.lock_array_pow2_mutex", "misc.injecting_monitor_spin", "misc.injecting_monitor_mutex", "misc.pool_monitor"]],
        classes=["mutual-exclusion", "reentrant-refused", "lock-array-cell", "pool-lock-in-use", "pool-lock-binding"],
        expect_probes=["pool_monitor_lock_allocated"],
        title="Spin locks and node monitors provide mutual exclusion",
        technique="deterministic simulation (seeded schedules, weak-CAS failures, x86-TSO store buffer) with per-lock occupancy counters, reentrant ownership depth and lock-pool life-cycle checks",
    ),
    "C23": dict(
        subjects=[(n, 5000, 200000) for n in ["misc.fc_kernel_backoff", "misc.fc_kernel_empty", "misc.fc_kernel_smsc", "misc.fc_kernel_smmc", "misc.fc_kernel_mmmc", "misc.fc_kernel_mmmc_mutex"]],
        classes=["two-combiners", "executed-twice", "never-executed", "wrong-response", "response-before-execution", "garbage-request", "freed-record-written", "record-leaked"],
        fatal_classes_as_violation=["hang", "hang-solo", "deadlock"],
        expect_probes=["fc_pubrecords_deleted", "fc_compact_list", "fc_passive_to_combiner", "fc_wakeups_by_notify"],
        title="Flat combining executes each request exactly once under mutual exclusion",
        technique="deterministic simulation of the real flat-combining kernel under a counting harness container (seeded schedules, real thread exit and record compaction, early time-outs, spurious wake-ups); oracle: per-request execution count, single combiner, response-after-execution, freed publication records untouched (poisoning allocator); a request that can never complete = violation",
    ),
    "C24": dict(
        subjects=[(n, 8000, 300000) for n in ["misc.vyukov_queue_pool", "misc.lazy_vyukov_queue_pool", "misc.bounded_vyukov_queue_pool", "misc.pool_allocator_vyukov", "misc.pool_allocator_lazy", "misc.pool_allocator_bounded"]],
        classes=["allocated-twice", "object-overwritten", "object-lost"],
        fatal_classes_as_violation=["hang-solo"],   # allocate()/deallocate() that can never return although every other client has finished: deallocated objects do not become available again
        expect_probes=["bounded_pool_exhausted"],
        title="Object pools never hand one object to two holders",
        technique="deterministic simulation (seeded schedules, weak-CAS failures, thread churn; programs allocate up to and past capacity) with an online ownership-map oracle, object tags and quiescent re-allocation",
    ),
}

NOT_APPLICABLE = [
    {"property_id": "C25", "reason": "Bit-manipulation helpers are pure functions of their arguments: no schedule, clock, fault or shared state for a simulator to own (exhaustive sweeps or SMT would decide it; both are other techniques)."},
    {"property_id": "C26", "reason": "bit_reverse_counter inc/dec is a pure sequential function of the call sequence of one caller; nothing to simulate."},
    {"property_id": "C27", "reason": "Split-order key encoding is arithmetic on (hash, table size); nothing to simulate."},
    {"property_id": "C28", "reason": "Feldman layout normalisation and path divergence are pure functions of (hash bytes, bit widths); the concurrent face of the same code is exercised under C14/C17."},
]
