#!/usr/bin/env python3
"""replay.py <file.replay> [--trace]: rebuilds the right simulator binary against /repo and replays the file."""
import os, re, subprocess, sys
VERIF = os.path.dirname(os.path.abspath(__file__))
sys.path.insert(0, VERIF)
from checks import GROUP_OF
path = sys.argv[1]
subject = re.search(r"^subject (\S+)", open(path).read(), re.M).group(1)
g = GROUP_OF(subject)
repo = os.environ.get("REPO", "/repo")
import hashlib
build = os.environ.get("VERIF_BUILD", os.path.join(VERIF, "build", "fast" if repo == "/repo" else "fast-" + hashlib.md5(repo.encode()).hexdigest()[:8]))   # same convention as run_check
r = subprocess.run(["make", "-C", VERIF, "-j16", "REPO=" + repo, "BUILD=" + build, "GROUPS=" + g], stdout=subprocess.PIPE, stderr=subprocess.STDOUT, text=True)
if r.returncode != 0:
    print(r.stdout[-3000:]); sys.exit(2)
sys.exit(subprocess.run([os.path.join(build, "sim_" + g), "--replay", path] + sys.argv[2:]).returncode)
