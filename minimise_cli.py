#!/usr/bin/env python3
"""minimise_cli.py <replay file> [budget]: minimise a candidate replay with the same algorithm run_check uses (for triage)."""
import importlib.machinery, importlib.util, os, re, sys
VERIF = os.path.dirname(os.path.abspath(__file__))
loader = importlib.machinery.SourceFileLoader("run_check_mod", os.path.join(VERIF, "run_check"))
spec = importlib.util.spec_from_loader("run_check_mod", loader); rc = importlib.util.module_from_spec(spec); loader.exec_module(rc)
path = sys.argv[1]; budget = int(sys.argv[2]) if len(sys.argv) > 2 else 300
txt = open(path).read()
subject = re.search(r"^subject (\S+)", txt, re.M).group(1)
binary = os.path.join(rc.BUILD, "sim_" + rc.GROUP_OF(subject))
r0 = rc.replay(binary, path); print("original:", r0["cls"], r0["detail"][:200])
lines, n = rc.minimise(binary, path, r0["cls"], budget)
out = path + ".min.replay"; rc.write_replay(out, [l for l in lines if not l.startswith(("expect ", "detail ", "minimised "))])
r1 = rc.replay(binary, out); print("minimised (%d runs):" % n, r1["cls"], out)
print("\n".join(l for l in lines if l.startswith(("knob", "thread", "op ", "dec "))))
