# Build of the deterministic-simulation harness against the CURRENT working tree of $(REPO).
# Usage: make GROUPS="smr queue" [REPO=/repo] [BUILD=build/repo] [FLAVOUR=fast|asan]
REPO    ?= /repo
FLAVOUR ?= fast
BUILD   ?= build/$(FLAVOUR)
CXX     ?= g++
override BUILD := $(abspath $(BUILD))
override REPO  := $(abspath $(REPO))
GROUPS  ?= $(sort $(foreach f,$(wildcard subjects/*.cpp),$(firstword $(subst _, ,$(notdir $(f))))))

BASEFLAGS = -std=gnu++11 -g -DNDEBUG -mcx16 -fno-strict-aliasing -DKHIZMAX_LIBCDS_VERIF -Iinclude -I$(REPO) -pthread -MMD -MP -w
ifeq ($(FLAVOUR),asan)
CXXFLAGS = $(BASEFLAGS) -O1 -fsanitize=address -fno-omit-frame-pointer -DVERIF_ASAN
LDFLAGS  = -fsanitize=address
else
CXXFLAGS = $(BASEFLAGS) -O1
LDFLAGS  =
endif
LIBS = -lboost_thread -lboost_system -lpthread -ldl

CDS_SRC  = init.cpp hp.cpp dhp.cpp hp_thread_local.cpp thread_data.cpp topology_linux.cpp urcu_gp.cpp urcu_sh.cpp dllmain.cpp
CDS_OBJ  = $(addprefix $(BUILD)/cds/,$(CDS_SRC:.cpp=.o))
CORE_OBJ = $(BUILD)/dsim/dsim.o $(BUILD)/dsim/arena.o $(BUILD)/harness/core.o $(BUILD)/harness/main.o $(BUILD)/harness/lin.o
BINS     = $(addprefix $(BUILD)/sim_,$(GROUPS))

all: $(BINS)
setup: $(CORE_OBJ)

.SECONDEXPANSION:
subj_objs = $(foreach f,$(wildcard subjects/$(1)_*.cpp),$(BUILD)/$(basename $(f)).o)
# structure checks of tree_all.cpp look into private bases and protected helpers of the library classes
$(BUILD)/subjects/tree_all.o: CXXFLAGS += -fno-access-control

$(BUILD)/sim_%: $(CORE_OBJ) $(CDS_OBJ) $$(call subj_objs,$$*)
	@mkdir -p $(dir $@)
	$(CXX) $(LDFLAGS) -o $@ $^ $(LIBS)

$(BUILD)/cds/%.o: $(REPO)/src/%.cpp
	@mkdir -p $(dir $@)
	$(CXX) $(CXXFLAGS) -c $< -o $@
$(BUILD)/%.o: %.cpp
	@mkdir -p $(dir $@)
	$(CXX) $(CXXFLAGS) -c $< -o $@

clean:
	rm -rf build
-include $(shell find $(BUILD) -name '*.d' 2>/dev/null)
.PHONY: all setup clean
.SECONDARY:
