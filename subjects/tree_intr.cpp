// C15 (intrusive variants): intrusive::SkipListSet and intrusive::EllenBinTree incl. unlink(), extract_min/max and exactly-once
// disposer accounting.
#include <cds/intrusive/skip_list_hp.h>
#include <cds/intrusive/skip_list_dhp.h>
#include <cds/intrusive/skip_list_rcu.h>
#include <cds/intrusive/ellen_bintree_hp.h>
#include <cds/intrusive/ellen_bintree_dhp.h>
#include <cds/intrusive/ellen_bintree_rcu.h>
#include "intrusive_common.h"

using namespace smc;
namespace ci = cds::intrusive;
namespace {
typedef cds::gc::HP HP; typedef cds::gc::DHP DHP;
static int g_level_mode;
struct SimLevel {
    static unsigned int const c_nUpperBound = 32; unsigned state;
    SimLevel() : state(0x9E3779B9u) {}
    unsigned operator()() { if (g_level_mode == 0) return 0; if (g_level_mode == 1) return 5 + (state++ & 3); state ^= state << 13; state ^= state >> 17; state ^= state << 5; unsigned l = 0, x = state; while ((x & 1) && l < 10) { ++l; x >>= 1; } return l; }
};
template <class GC> struct skN : BNode<ci::skip_list::node<GC>> { skN(long k, long i) : BNode<ci::skip_list::node<GC>>(k, i) {} };
template <class GC> struct sk_tr : ci::skip_list::traits { typedef ci::skip_list::base_hook<cds::opt::gc<GC>> hook; typedef Less less; typedef IDisp disposer; typedef cds::atomicity::item_counter item_counter; typedef SimLevel random_level_generator; typedef ci::skip_list::stat<> stat; };
template <class GC> struct elN : BNode<ci::ellen_bintree::node<GC>> { elN(long k, long i) : BNode<ci::ellen_bintree::node<GC>>(k, i) {} };
struct KeyEx { template <class T> void operator()(long& dst, T const& src) const { dst = src.key; } };
template <class GC> struct el_tr : ci::ellen_bintree::traits { typedef ci::ellen_bintree::base_hook<cds::opt::gc<GC>> hook; typedef KeyEx key_extractor; typedef Less less; typedef IDisp disposer; typedef cds::atomicity::item_counter item_counter; typedef ci::ellen_bintree::stat<> stat; };

static const unsigned CAPS_TREE = CAPS_FULL | CAP(EXTRACT_MIN) | CAP(EXTRACT_MAX);
typedef Cfg<CAPS_TREE> C_tree; typedef Cfg<CAPS_TREE, false, true, false> C_tree_noiter;
template <class GC, class S, class N, class CFG> struct TSet : IntrA<GC, S, N, CFG> {
    explicit TSet(const Program& p) { g_level_mode = (int)p.knob("level_mode", 2); this->s.reset(new S()); }
    R extract_min() { return Access<GC>::extract_min(*this->s); }
    R extract_max() { return Access<GC>::extract_max(*this->s); }
    bool consistent(std::string& why) { return chk(why, 0) && levels(why, 0); }
    // C18: "every skip-list level is an ordered sub-list of the level below".  The nodes are ours, so their towers are visible: at quiescence
    // level L must link exactly the present nodes whose tower is higher than L, in key order, with no deletion mark left.
    template <class X = N> auto levels(std::string& why, int) -> decltype(std::declval<X&>().height(), bool()) {
        std::vector<N*> order; for (auto it = this->s->begin(); it != this->s->end(); ++it) order.push_back(&*it);
        for (size_t i = 0; i < order.size(); i++) {
            N* n = order[i];
            for (unsigned L = 0; L < n->height(); L++) {
                auto nx = n->next(L).load(atomics::memory_order_relaxed);
                N* expect = nullptr; for (size_t j = i + 1; j < order.size(); j++) if (order[j]->height() > L) { expect = order[j]; break; }
                char b[200];
                if (nx.bits()) { snprintf(b, sizeof b, "skip list: key %ld is present at quiescence but its level-%u link carries a deletion mark", n->key, L); why = b; return false; }
                if (static_cast<N*>(nx.ptr()) != expect) { snprintf(b, sizeof b, "skip list: level %u is not the ordered sub-list of the level below: key %ld (tower %u) links to %s%ld, expected %s%ld", L, n->key, n->height(), nx.ptr() ? "key " : "end ", nx.ptr() ? static_cast<N*>(nx.ptr())->key : 0L, expect ? "key " : "end ", expect ? expect->key : 0L); why = b; return false; }
            }
        }
        this->lvl_checked = true; return true;
    }
    bool levels(std::string&, long) { return true; }
    bool lvl_checked = false;
    void probes(Ctx& c) { IntrA<GC, S, N, CFG>::probes(c); if (lvl_checked) c.probe("skiplist_levels_checked"); }
    template <class X = S> auto chk(std::string& why, int) -> decltype(std::declval<X&>().check_consistency(), bool()) { if (!this->s->check_consistency()) { why = "check_consistency() returned false at quiescence"; return false; } return true; }
    bool chk(std::string&, long) { return true; }
};
void gen_skip(Rng& r, Program& p, int tier, const std::string&) { GenCfg g; g.caps = CAPS_TREE; g.min_hazards = 70; g.nkeys_hot = 4; g.insert_forms = 2; g.erase_forms = 3; gen_program(r, p, tier, g); p.set("level_mode", r.below(3)); }
void gen_ellen(Rng& r, Program& p, int tier, const std::string&) { GenCfg g; g.caps = CAPS_TREE; g.min_hazards = 12; g.nkeys_hot = 4; g.insert_forms = 2; g.erase_forms = 3; gen_program(r, p, tier, g); }
#define COMPI(f) "real: " f ", SMR; simulated: scheduler + faults, forced skip-list tower heights, eager reclamation; harness: harness-owned nodes, counting disposer; oracle: linearizability vs ordered key->instance map (unlink() as an erase of that very instance), relaxed interval oracle for extract_min/max, quiescent traversal / consistency check / size(), every linked node disposed exactly once after container and SMR destruction"
#define IT(var, NAME, A, GEN, F) typedef A T_##var; SM_SUBJECT(var, NAME, "C15,C18,C20", T_##var, GEN, COMPI(F))
typedef ci::SkipListSet<HP, skN<HP>, sk_tr<HP>> K1; typedef TSet<HP, K1, skN<HP>, C_tree> X1; IT(k1, "tree.iSkipListSet_HP", X1, gen_skip, "cds/intrusive/impl/skip_list.h")
typedef ci::SkipListSet<DHP, skN<DHP>, sk_tr<DHP>> K2; typedef TSet<DHP, K2, skN<DHP>, C_tree> X2; IT(k2, "tree.iSkipListSet_DHP", X2, gen_skip, "cds/intrusive/impl/skip_list.h")
typedef ci::SkipListSet<RCU_GPB, skN<RCU_GPB>, sk_tr<RCU_GPB>> K3; typedef TSet<RCU_GPB, K3, skN<RCU_GPB>, C_tree> X3; IT(k3, "tree.iSkipListSet_RCU_gpb", X3, gen_skip, "cds/intrusive/skip_list_rcu.h")
typedef ci::EllenBinTree<HP, long, elN<HP>, el_tr<HP>> E1; typedef TSet<HP, E1, elN<HP>, C_tree_noiter> Y1; IT(e1, "tree.iEllenBinTree_HP", Y1, gen_ellen, "cds/intrusive/impl/ellen_bintree.h")
typedef ci::EllenBinTree<DHP, long, elN<DHP>, el_tr<DHP>> E2; typedef TSet<DHP, E2, elN<DHP>, C_tree_noiter> Y2; IT(e2, "tree.iEllenBinTree_DHP", Y2, gen_ellen, "cds/intrusive/impl/ellen_bintree.h")
typedef ci::EllenBinTree<RCU_GPT, long, elN<RCU_GPT>, el_tr<RCU_GPT>> E3; typedef TSet<RCU_GPT, E3, elN<RCU_GPT>, C_tree_noiter> Y3; IT(e3, "tree.iEllenBinTree_RCU_gpt", Y3, gen_ellen, "cds/intrusive/ellen_bintree_rcu.h")
} // namespace
