// Intrusive set adapters (C13/C14/C15/C20: "intrusive and value variants", unlink, number of disposer calls, base/member hooks).
// Elements are harness-owned nodes; the disposer only counts, so that exactly-once disposal can be checked after the
// container and the SMR singleton are gone, and a disposed node that is still observed through the container shows up
// as a foreign instance id in the history.
#pragma once
#include "setmap_common.h"

namespace smc {
struct IBase { long key, inst; size_t hash; int disposed, linked; IBase(long k, long i) : key(k), inst(i), hash(mkhash(k)), disposed(0), linked(0) {} virtual ~IBase() {} };
inline long key_of(IBase const& n) { return n.key; }
inline long inst_of(IBase const& n) { return n.disposed ? 900000000 + n.inst : n.inst; }
struct IDisp { void operator()(IBase* p) const { ++p->disposed; } };
template <class NodeT> struct BNode : IBase, NodeT { BNode(long k, long i) : IBase(k, i) {} };            // base hook
template <class NodeT> struct MNode : IBase { NodeT hMember; MNode(long k, long i) : IBase(k, i) {} };     // member hook
struct PNode : IBase { PNode(long k, long i) : IBase(k, i) {} };                                           // no hook (IterableList)

extern std::vector<IBase*>* g_ipool;   // nodes of the current run (defined in harness/core.cpp)

template <class GC, class S, class N, class CFG>
struct IntrA {
    typedef typename SmrOf<GC>::type Smr; typedef GC gc; typedef S container;
    static const unsigned caps = CFG::caps; static const bool update_replaces = CFG::update_replaces; static const bool ordered = CFG::ordered;
    std::unique_ptr<S> s;
    IntrA() { g_ipool = new std::vector<IBase*>(); }
    explicit IntrA(const Program&) : s(new S()) { g_ipool = new std::vector<IBase*>(); }
    static N* mk(long key, long inst) { N* n = new N(key, inst); g_ipool->push_back(n); return n; }
    R insert(long key, long inst, int form) {
        R r; N* n = mk(key, inst);
        if (form == 1) { r.ok = s->insert(*n, InsF{&r}); if ((r.ok && r.calls != 1) || (!r.ok && r.calls)) r.calls = -100; r.inst = -1; }
        else r.ok = s->insert(*n);
        if (r.ok) n->linked = 1;
        return r;
    }
    typedef std::true_type yes; typedef std::false_type no;
    template <int K> struct has : std::integral_constant<bool, ((CFG::caps >> K) & 1) != 0> {};
    R erase(long key, int form) {
        R r;
        if (form == 2) {   // unlink(): removes the element only if it is this very node
            N* cand = nullptr; for (auto it = g_ipool->rbegin(); it != g_ipool->rend(); ++it) if ((*it)->key == key && (*it)->linked) { cand = static_cast<N*>(*it); break; }
            if (cand) { r.ok = s->unlink(*cand); if (r.ok) r.inst = cand->inst; else r.drop = true; return r; }
        }
        if (form == 1) { r.ok = s->erase(key, EraseF{&r}); if ((r.ok && r.calls != 1) || (!r.ok && r.calls)) r.calls = -100; } else r.ok = s->erase(key);
        return r;
    }
    R extract_(long key, yes) { return Access<GC>::extract(*s, key, CFG::rcu_extract_locked); }
    R extract_(long, no) { return R(); }
    R get_(long key, yes) { return Access<GC>::get(*s, key); }
    R get_(long, no) { return R(); }
    R contains(long key) { R r; r.ok = s->contains(key); return r; }
    R find(long key) { R r; long k = key; r.ok = s->find(k, FindF{&r}); if ((r.ok && r.calls != 1) || (!r.ok && r.calls)) r.calls = -100; return r; }
    R update(long key, long inst, bool allow) {
        R r; N* n = mk(key, inst); std::pair<bool, bool> p = s->update(*n, UpdF{&r}, allow); r.ok = p.first; r.inserted = p.second;
        if ((r.ok && r.calls > 1) || (!r.ok && r.calls)) r.calls = -100;
        if (p.first && (p.second || update_replaces)) n->linked = 1;
        return r;
    }
    R extract(long key) { return extract_(key, has<EXTRACT>()); }
    R get(long key) { return get_(key, has<GET>()); }
    R extract_min() { return R(); }
    R extract_max() { return R(); }
    bool traverse(std::vector<long>& out) { if (!CFG::has_iter) return false; iter_all(*s, out, 0); return true; }
    long size() { return CFG::has_size ? (long)s->size() : -1; }
    bool empty() { return s->empty(); }
    bool consistent(std::string&) { return true; }
    void probes(Ctx& c) { c.probe("intrusive_nodes", (long)g_ipool->size()); }
    // the container (its destructor clears it) and the SMR singleton are destroyed: every node that was ever linked must have been
    // given to the disposer exactly once, every rejected node never
    static void after_smr(Ctx& ctx) {
        if (!g_ipool) return;
        for (IBase* n : *g_ipool) {
            if (n->disposed > 1) ctx.fail("double-dispose", "node (key %ld, instance %ld) was given to the disposer %d times", n->key, n->inst, n->disposed);
            else if (n->linked && n->disposed == 0) ctx.fail("never-disposed", "node (key %ld, instance %ld) was linked into the container but never given to the disposer although container and SMR singleton were destroyed", n->key, n->inst);
            else if (!n->linked && n->disposed) ctx.fail("dispose-not-inserted", "node (key %ld, instance %ld) was never linked (insert/update rejected it) but was given to the disposer", n->key, n->inst);
        }
        for (IBase* n : *g_ipool) delete n;
        delete g_ipool; g_ipool = nullptr;
    }
};
} // namespace smc
