// C14 (intrusive variants): intrusive::MichaelHashSet and intrusive::SplitListSet over intrusive Michael / Lazy lists, incl.
// unlink() and exactly-once disposer accounting.
#include <cds/intrusive/michael_list_hp.h>
#include <cds/intrusive/michael_list_dhp.h>
#include <cds/intrusive/michael_list_rcu.h>
#include <cds/intrusive/lazy_list_hp.h>
#include <cds/intrusive/lazy_list_rcu.h>
#include <cds/intrusive/michael_set.h>
#include <cds/intrusive/michael_set_rcu.h>
#include <cds/intrusive/split_list.h>
#include <cds/intrusive/split_list_rcu.h>
#include "intrusive_common.h"

using namespace smc;
namespace ci = cds::intrusive;
namespace {
typedef cds::gc::HP HP; typedef cds::gc::DHP DHP;
template <class GC> struct ml_base : ci::michael_list::traits { typedef ci::michael_list::base_hook<cds::opt::gc<GC>> hook; typedef Less less; typedef IDisp disposer; };
template <class GC> struct ll_base : ci::lazy_list::traits { typedef ci::lazy_list::base_hook<cds::opt::gc<GC>> hook; typedef Cmp compare; typedef IDisp disposer; };
template <class GC> struct mlN : BNode<ci::michael_list::node<GC>> { mlN(long k, long i) : BNode<ci::michael_list::node<GC>>(k, i) {} };
template <class GC> struct llN : BNode<ci::lazy_list::node<GC>> { llN(long k, long i) : BNode<ci::lazy_list::node<GC>>(k, i) {} };
template <class GC> struct smlN : BNode<ci::split_list::node<ci::michael_list::node<GC>>> { smlN(long k, long i) : BNode<ci::split_list::node<ci::michael_list::node<GC>>>(k, i) {} };
template <class GC> struct sllN : BNode<ci::split_list::node<ci::lazy_list::node<GC>>> { sllN(long k, long i) : BNode<ci::split_list::node<ci::lazy_list::node<GC>>>(k, i) {} };
struct ms_traits : ci::michael_set::traits { typedef Hash hash; typedef cds::atomicity::item_counter item_counter; };
template <bool Dyn> struct sl_traits : ci::split_list::traits { typedef Hash hash; static const bool dynamic_bucket_table = Dyn; typedef cds::atomicity::item_counter item_counter; typedef ci::split_list::stat<> stat; };

typedef Cfg<CAPS_FULL, false, false> C_full; typedef Cfg<CAPS_FULL, false, false, true, true, true> C_lazy_rcu;
template <class GC, class S, class N, class CFG> struct MSet : IntrA<GC, S, N, CFG> { explicit MSet(const Program& p) { this->s.reset(new S((size_t)p.knob("max_items", 4), (size_t)p.knob("load_factor", 1))); } };
template <class GC, class S, class N, class CFG> struct SSet : IntrA<GC, S, N, CFG> {
    explicit SSet(const Program& p) { this->s.reset(new S((size_t)p.knob("item_count", 2), (size_t)p.knob("load_factor", 1))); }
    bool consistent(std::string& why) { std::vector<long> ks; this->traverse(ks); return split_order_ok(ks, why); } void probes(Ctx& c) { IntrA<GC, S, N, CFG>::probes(c); auto const& st = this->s->statistics(); c.probe("split_bucket_inits", (long)st.m_nInitBucketRecursive.get() + (long)st.m_nInitBucketContention.get()); c.probe("split_buckets_created", (long)st.m_nBucketCount.get()); }
};
void gen_m(Rng& r, Program& p, int tier, const std::string&) { GenCfg g; g.min_hazards = 8; g.hash_modes = 4; g.nkeys_hot = 4; g.insert_forms = 2; g.erase_forms = 3; gen_program(r, p, tier, g); p.set("max_items", r.pick({1, 2, 4, 8})); p.set("load_factor", r.pick({1, 1, 2})); }
void gen_s(Rng& r, Program& p, int tier, const std::string&) { GenCfg g; g.min_hazards = 12; g.hash_modes = 4; g.nkeys_hot = 5; g.nkeys_cold = 3; g.max_ops = 6; g.insert_forms = 2; g.erase_forms = 3; gen_program(r, p, tier, g); p.set("item_count", r.pick({2, 2, 4})); p.set("load_factor", 1); }
#define COMPI(f) "real: " f " + intrusive ordered list, SMR; simulated: scheduler + faults as for the value variants, degenerate hash functions; harness: harness-owned nodes, counting disposer; oracle: linearizability vs key->instance map (unlink() as an erase of that very instance), quiescent find / exact-once traversal / size(), every linked node disposed exactly once after container and SMR destruction"
#define IS(var, NAME, A, GEN, PROPS, F) typedef A T_##var; SM_SUBJECT(var, NAME, PROPS, T_##var, GEN, COMPI(F))
typedef ci::MichaelHashSet<HP, ci::MichaelList<HP, mlN<HP>, ml_base<HP>>, ms_traits> S1; typedef MSet<HP, S1, mlN<HP>, C_full> X1; IS(s1, "hash.iMichaelSet_MichaelList_HP", X1, gen_m, "C14,C20", "cds/intrusive/michael_set.h")
typedef ci::MichaelHashSet<DHP, ci::LazyList<DHP, llN<DHP>, ll_base<DHP>>, ms_traits> S2; typedef MSet<DHP, S2, llN<DHP>, C_full> X2; IS(s2, "hash.iMichaelSet_LazyList_DHP", X2, gen_m, "C14,C20", "cds/intrusive/michael_set.h")
typedef ci::MichaelHashSet<RCU_GPB, ci::MichaelList<RCU_GPB, mlN<RCU_GPB>, ml_base<RCU_GPB>>, ms_traits> S3; typedef MSet<RCU_GPB, S3, mlN<RCU_GPB>, C_full> X3; IS(s3, "hash.iMichaelSet_MichaelList_RCU_gpb", X3, gen_m, "C14,C20", "cds/intrusive/michael_set_rcu.h")
typedef ci::SplitListSet<HP, ci::MichaelList<HP, smlN<HP>, ml_base<HP>>, sl_traits<true>> S4; typedef SSet<HP, S4, smlN<HP>, C_full> X4; IS(s4, "hash.iSplitListSet_Michael_HP_dyn", X4, gen_s, "C14,C17,C18,C20", "cds/intrusive/split_list.h")
typedef ci::SplitListSet<DHP, ci::LazyList<DHP, sllN<DHP>, ll_base<DHP>>, sl_traits<false>> S5; typedef SSet<DHP, S5, sllN<DHP>, C_full> X5; IS(s5, "hash.iSplitListSet_Lazy_DHP_static", X5, gen_s, "C14,C17,C18,C20", "cds/intrusive/split_list.h")
typedef ci::SplitListSet<RCU_SHB, ci::MichaelList<RCU_SHB, smlN<RCU_SHB>, ml_base<RCU_SHB>>, sl_traits<true>> S6; typedef SSet<RCU_SHB, S6, smlN<RCU_SHB>, C_full> X6; IS(s6, "hash.iSplitListSet_Michael_RCU_shb", X6, gen_s, "C14,C17,C18,C20", "cds/intrusive/split_list_rcu.h")
} // namespace
