// C19: thread-safe iterators of IterableList, of MichaelHashSet / SplitListSet built on it, and of FeldmanHashSet (forward and
// reverse): the current element is never a disposed one, every element present for the whole iteration is visited (exactly
// once / in order for IterableList, exactly once for hash sets over it, at least once for Feldman), erase_at removes exactly
// the element under the iterator.
#include <cds/container/iterable_list_hp.h>
#include <cds/container/iterable_list_dhp.h>
#include <cds/container/michael_set.h>
#include <cds/container/split_list_set.h>
#include <cds/container/feldman_hashset_hp.h>
#include <cds/container/feldman_hashset_dhp.h>
#include <map>
#include <cds/container/feldman_hashset_rcu.h>
#include "setmap_common.h"

using namespace smc;
namespace cc = cds::container;
namespace {
typedef cds::gc::HP HP; typedef cds::gc::DHP DHP;
enum { O_ITER = 0, O_INS = 1, O_ERASE = 2, O_UPD = 3 };
const char* const it_opnames[] = {"iterate", "insert", "erase", "update", nullptr};
const long STABLE_STEP = 10;   // stable keys are multiples of 10, volatile keys are the others

struct il_less : cc::iterable_list::traits { typedef Less less; typedef cds::atomicity::item_counter item_counter; };
struct ms_traits : cc::michael_set::traits { typedef Hash hash; typedef cds::atomicity::item_counter item_counter; };
struct sl_traits : cc::split_list::traits { typedef Hash hash; typedef cc::iterable_list_tag ordered_list; typedef cds::atomicity::item_counter item_counter; struct ordered_list_traits : cc::iterable_list::traits { typedef Less less; }; };
struct FItem { size_t hash; long key; long inst; FItem() : hash(0), key(0), inst(-1) {} FItem(long k, long i) : hash(((size_t)k << 56) | ((size_t)k << 3) | 0x00AA00AA00AA0005ULL), key(k), inst(i) {} };
struct facc { size_t const& operator()(FItem const& i) const { return i.hash; } };
struct fs_traits : cc::feldman_hashset::traits { typedef facc hash_accessor; typedef cds::atomicity::item_counter item_counter; };
inline size_t fhash(long k) { return FItem(k, 0).hash; }

inline uint64_t hist_inv_of(Ctx& c, int h) { return c.hist[h].inv; }
struct EF { long* inst; template <class V> void operator()(V const& v) const { *inst = v.inst; } };
// generic wrappers: key-addressed containers (Item) and hash-addressed Feldman (FItem)
template <class S> struct KeyOps {
    typedef Item item;
    static bool insert(S& s, long k, long i) { return s.insert(Item(k, i)); }
    static bool erase(S& s, long k, long& inst) { return s.erase(k, EF{&inst}); }
    static bool contains(S& s, long k) { return s.contains(k); }
    static std::pair<bool, bool> upsert(S& s, long k, long i, long& old) { return s.update(Item(k, i), [&old](Item&, Item* o) { if (o) old = o->inst; }, true); }
};
template <class S> struct HashOps {
    typedef FItem item;
    static bool insert(S& s, long k, long i) { return s.insert(FItem(k, i)); }
    static bool erase(S& s, long k, long& inst) { return s.erase(fhash(k), EF{&inst}); }
    static bool contains(S& s, long k) { return s.contains(fhash(k)); }
    static std::pair<bool, bool> upsert(S& s, long k, long i, long& old) { return s.update(FItem(k, i), [&old](FItem&, FItem* o) { if (o) old = o->inst; }, true); }
};
template <class GC, class S, class Ops, int Mode /*0 ordered exactly-once, 1 exactly-once, 2 at-least-once*/, bool Reverse> struct ItA {
    typedef typename SmrOf<GC>::type Smr; typedef S set_type; typedef Ops ops; typedef GC gc_type; static const int mode = Mode; static const bool has_reverse = Reverse;
    std::unique_ptr<S> s;
    explicit ItA(const Program& p) { make(p, 0); }
    template <class X = S> auto make(const Program& p, int) -> decltype((void)new X((size_t)1, (size_t)1)) { s.reset(new S((size_t)p.knob("arg1", 2), (size_t)p.knob("arg2", 1))); }
    void make(const Program&, long) { s.reset(new S()); }
};
// RCU containers: iterators are valid only inside an RCU critical section held for the whole walk
template <class S, class GC> struct WalkLock { WalkLock() {} };
template <class S, class R> struct WalkLock<S, cds::urcu::gc<R>> { typename S::rcu_lock l; };
template <class S, class It> auto erase_at_of(S& s, It& it, int) -> decltype((bool)s.erase_at(it)) { return s.erase_at(it); }
template <class S, class It> bool erase_at_of(S&, It&, long) { return false; }
template <class S, class It> auto has_erase_at_of(S& s, It& it, int) -> decltype((void)s.erase_at(it), true) { return true; }
template <class S, class It> bool has_erase_at_of(S&, It&, long) { return false; }
template <class A, bool R> struct RevWalk { template <class F, class P, class Q> static void go(typename A::set_type&, long, F, P, Q) {} };
template <class A> struct RevWalk<A, true> { template <class F, class P, class Q> static void go(typename A::set_type& s, long hold, F visit, P pre, Q post) { for (auto it = (pre(), s.rbegin()); (post(), it != s.rend()); (pre(), ++it)) { visit(it->key, it->inst); for (long k = 0; k < hold; k++) dsim::point(dsim::K_USER); visit(it->key, it->inst); } } };

template <class A> void run(Ctx& ctx) {
    const Program& P = *ctx.prog; g_hash_mode = (int)P.knob("hash_mode");
    struct KeepPreemptiblePasses { KeepPreemptiblePasses() { vh::g_atomic_eager_pass = false; } ~KeepPreemptiblePasses() { vh::g_atomic_eager_pass = true; } } keep_passes;   // C19 classifies the guard-copy race itself
    struct Seen { long key, inst; uint64_t step; };
    std::map<long, long> inst_key;            // every instance id ever created -> its key
    std::vector<std::vector<Seen>> walks;     // one entry per ITER op
    std::vector<long> removed_inst;           // instances removed by successful erase / erase_at
    // Reclamation passes in these runs are the harness-decided eager ones (retired capacities are far above what a run retires), so their
    // step intervals are known; 'moves' are the intervals of the calls that hand an element from one iterator object to another
    // (begin(), operator++ crossing into another bucket: the library copies the guard and releases the source guard).
    struct Ival { uint64_t a, b; int thread; };
    std::vector<Ival> scans, moves;
    {
        typename A::Smr smr(P); cds::threading::Manager::attachThread();
        {
            A a(P); typename A::set_type& s = *a.s; typedef typename A::ops Ops;
            int nstable = (int)P.knob("stable", 3), nid = 5000;
            auto record_inst = [&](long inst, long key) { ++dsim::t_bypass; inst_key[inst] = key; --dsim::t_bypass; };
            for (int k = 1; k <= nstable; k++) { Op o; o.id = nid++; o.kind = O_INS; o.a = k * STABLE_STEP; int h = ctx.begin_op(99, o); long inst = 1000 + o.id; record_inst(inst, o.a); bool ok = Ops::insert(s, o.a, inst); ctx.end_op(h, ok, inst); }
            long vmask = P.knob("volatile_prefill");
            for (int k = 0; k < 8; k++) if (vmask >> k & 1) { Op o; o.id = nid++; o.kind = O_INS; o.a = k + 1 + (k + 1) / STABLE_STEP; if (o.a % STABLE_STEP == 0) continue; int h = ctx.begin_op(99, o); long inst = 1000 + o.id; record_inst(inst, o.a); bool ok = Ops::insert(s, o.a, inst); ctx.end_op(h, ok, inst); }
            int eager = (int)P.knob("eager");
            ctx.run_clients(
                [&](int) { cds::threading::Manager::attachThread(); },
                [&](int t, const Op& op) {
                    int h = ctx.begin_op(t, op); long inst = 1000 + op.id; long r = 0, r2 = -1, r3 = 0;
                    if (op.kind == O_ITER) {
                        WalkLock<typename A::set_type, typename A::gc_type> walk_lock;
                        ++dsim::t_bypass; walks.emplace_back(); --dsim::t_bypass; size_t w = walks.size() - 1; long nerased = 0; uint64_t mv0 = 0;
                        auto note_move = [&](int th, uint64_t from) { ++dsim::t_bypass; moves.push_back(Ival{from, dsim::now_step(), th}); --dsim::t_bypass; };
                        auto visit = [&](long key, long ins) {
                            ++dsim::t_bypass; walks[w].push_back(Seen{key, ins, dsim::now_step()}); --dsim::t_bypass;
                            auto f = inst_key.find(ins);
                            if (f == inst_key.end() || f->second != key) {
                                // known finding (DESIGN.md 9.2): a reclamation pass that overlaps a guard-to-guard copy inside begin() / operator++ can miss the element
                                bool copy_race = false;
                                for (auto& m : moves) if (m.thread == t) for (auto& sc : scans) if (sc.thread != t && sc.a < m.b && m.a < sc.b) copy_race = true;
                                ctx.fail(copy_race ? "iterator-exposed-disposed-guard-copy" : "iterator-exposed-disposed", "the element under the iterator reads key %ld / instance %ld, which is not a live element (disposed or recycled memory)%s", key, ins, copy_race ? "; a reclamation pass of another thread overlapped a begin()/operator++ call of this iterator (hazard pointer copied between guards while the pass was reading them)" : "");
                            }
                        };
                        if (op.a == 1 && A::has_reverse) RevWalk<A, A::has_reverse>::go(s, op.b, visit, [&]() { mv0 = dsim::now_step(); }, [&]() { note_move(t, mv0); });
                        else for (auto it = (mv0 = dsim::now_step(), s.begin()); (note_move(t, mv0), it != s.end()); (mv0 = dsim::now_step(), ++it)) {
                            long key = it->key, ins = it->inst; visit(key, ins);
                            for (long k = 0; k < op.b; k++) dsim::point(dsim::K_USER);
                            visit(it->key, it->inst);   // still the same, live element after the hold
                            if (op.c && has_erase_at_of(s, it, 0) && key % STABLE_STEP != 0 && (op.c == 2 || (key + (long)walks[w].size()) % 3 == 0)) {
                                bool ok = erase_at_of(s, it, 0);
                                Event e; e.thread = t; e.opid = op.id; e.kind = O_ERASE; e.a = key; e.c = 7; e.r = ok; e.r2 = ins; e.inv = hist_inv_of(ctx, h); e.ret = dsim::now_step(); e.done = true;
                                ++dsim::t_bypass; ctx.hist.push_back(e); if (ok) removed_inst.push_back(ins); --dsim::t_bypass; if (ok) ++nerased;
                            }
                        }
                        r = (long)walks[w].size(); r2 = nerased; r3 = (long)w;
                    } else if (op.kind == O_INS) { record_inst(inst, op.a); r = Ops::insert(s, op.a, inst); r2 = inst; }
                    else if (op.kind == O_ERASE) { long rem = -1; r = Ops::erase(s, op.a, rem); r2 = rem; if (r) { ++dsim::t_bypass; removed_inst.push_back(rem); --dsim::t_bypass; } }
                    else { record_inst(inst, op.a); long old = -1; auto pr = Ops::upsert(s, op.a, inst, old); r = pr.first; r3 = pr.second; r2 = inst; if (pr.first && !pr.second && old > 0) { ++dsim::t_bypass; removed_inst.push_back(old); --dsim::t_bypass; } }   // a replacing update removes the old instance
                    ctx.end_op(h, r, r2, r3);
                    if (eager && dsim::decide(dsim::D_EAGER, eager)) { ++dsim::t_bypass; scans.push_back(Ival{dsim::now_step(), ~0ULL, t}); size_t si = scans.size() - 1; --dsim::t_bypass; A::Smr::eager(); scans[si].b = dsim::now_step(); ctx.probe("F10_eager_reclaim"); }
                },
                [&](int) { cds::threading::Manager::detachThread(); });
            // quiescent membership per key, for the conservation check
            std::set<long> keys; for (auto& kv : inst_key) keys.insert(kv.second);
            for (long k : keys) { Op o; o.id = nid++; o.kind = 9; o.a = k; int h = ctx.begin_op(99, o); bool ok = Ops::contains(s, k); ctx.end_op(h, ok); }
        }
        cds::threading::Manager::detachThread();
    }
    // ---- oracles over the recorded history
    // (1) stable keys: visited by every complete walk (exactly once / in order / at least once)
    int nstable = (int)P.knob("stable", 3);
    for (auto& e : ctx.hist) {
        if (e.kind != O_ITER || !e.done || e.thread == 99) continue;
        auto& w = walks[(size_t)e.r3]; std::map<long, int> cnt; long prev = 0; bool have_prev = false; bool rev = (e.a == 1 && A::has_reverse);
        for (size_t i = 0; i < w.size(); i += 2) {   // every element is recorded twice (before / after the hold)
            ++cnt[w[i].key];
            // the order claim is about elements present for the whole iteration (the stable keys): a volatile key that is erased
            // and re-inserted may legitimately land in a recycled node behind the iterator's position
            if (w[i].key % STABLE_STEP == 0) {
                if (A::mode == 0 && have_prev && !rev && w[i].key <= prev) { ctx.fail("iteration-order", "IterableList iterator yielded stable key %ld after stable key %ld", w[i].key, prev); return; }
                prev = w[i].key; have_prev = true;
            }
            if (i + 1 < w.size() && (w[i + 1].key != w[i].key || w[i + 1].inst != w[i].inst)) { ctx.fail("iterator-exposed-disposed", "the element under the iterator changed from (%ld,%ld) to (%ld,%ld) while the iterator was held", w[i].key, w[i].inst, w[i + 1].key, w[i + 1].inst); return; }
        }
        for (int k = 1; k <= nstable; k++) {
            int c = cnt[k * STABLE_STEP];
            if (c == 0) { std::string v; for (size_t i = 0; i < w.size(); i += 2) { char b[48]; snprintf(b, sizeof b, " %ld@%llu", w[i].key, (unsigned long long)w[i].step); v += b; } ctx.fail("stable-key-missed", "key %ld was present during the whole iteration but the iterator did not visit it; visited:%s", k * STABLE_STEP, v.c_str()); return; }
            if (c > 1 && A::mode != 2) { ctx.fail("stable-key-twice", "key %ld was visited %d times by one iteration", k * STABLE_STEP, c); return; }
        }
    }
    // (2) erase_at / erase conservation: every successful removal names a distinct instance; per key inserts - removals = final membership
    { std::set<long> seen; for (long i : removed_inst) if (i > 0 && !seen.insert(i).second) { ctx.fail("removed-twice", "instance %ld was removed twice (by two of: successful erase, successful erase_at on an iterator showing it, replacing update): erase_at removed an element other than the one under its iterator, or an element was unlinked twice", i); return; } }
    std::map<long, long> balance; std::map<long, bool> final_present;
    for (auto& e : ctx.hist) {
        if (!e.done) continue;
        if (e.kind == O_INS && e.r) ++balance[e.a];
        if (e.kind == O_UPD && e.r && e.r3) ++balance[e.a];
        if (e.kind == O_ERASE && e.r) --balance[e.a];
        if (e.kind == 9) final_present[e.a] = e.r != 0;
    }
    for (auto& f : final_present) { long b = balance[f.first]; if (b != (f.second ? 1 : 0)) { ctx.fail("conservation", "key %ld: successful inserts minus successful removals is %ld but the key is %s at quiescence", f.first, b, f.second ? "present" : "absent"); return; } }
    // (3) erase_at -> false only if some other removal / replacement of that key was invoked before it returned
    for (auto& e : ctx.hist) {
        if (e.kind != O_ERASE || e.c != 7 || e.r) continue;
        bool excuse = false;
        for (auto& o : ctx.hist) if (&o != &e && o.a == e.a && (o.kind == O_ERASE || o.kind == O_UPD) && o.thread != e.thread && o.inv < e.ret) excuse = true;
        if (!excuse) { ctx.fail("erase_at-false", "erase_at() on key %ld returned false although no other thread removed or replaced that element", e.a); return; }
    }
}
void gen(Rng& r, Program& p, int tier, const std::string&) {
    int nth = r.range(2, tier ? 4 : 3); p.set("stable", r.range(2, 4)); p.set("volatile_prefill", r.below(256)); p.set("hash_mode", r.pick({0, 3})); p.set("arg1", r.pick({2, 4})); p.set("arg2", r.pick({1, 2}));
    smr_knobs(r, p, nth, 16); p.threads.resize(nth);
    for (int t = 0; t < nth; t++) {
        bool iterating = t == 0 || r.chance(250);
        int nops = iterating ? r.range(1, 2) : r.range(2, 6), nvol = r.pick({3, 5, 8});   // few volatile keys: updaters hit the element under the iterator more often
        for (int k = 0; k < nops; k++) {
            if (iterating) p.add(t, O_ITER, r.below(2), r.pick({0, 1, 2, 4}), r.pick({0, 0, 0, 1, 1, 2}));   // c: erase_at on no / some / every volatile element
            else { long key = 1 + r.below(nvol); key += key / STABLE_STEP; if (key % STABLE_STEP == 0) ++key; int x = r.below(100); p.add(t, x < 40 ? O_INS : x < 70 ? O_ERASE : O_UPD, key); }
        }
    }
}
void gen_feld(Rng& r, Program& p, int tier, const std::string& s) { gen(r, p, tier, s); p.set("arg1", r.pick({1, 2, 2})); p.set("arg2", r.pick({1, 2, 2})); }
#define COMPI(f) "real: " f ", SMR; simulated: scheduler (iterator held across pre-emptions), weak-CAS failures, stalls, eager reclamation; oracle: live-element check on every dereference (instance registry + poisoned freed memory), stable-key coverage per walk, removal conservation, erase_at rules"
#define IT_SUBJECT(var, NAME, T, GEN, F) static const Subject var = {NAME, "C19", GEN, run<T>, nullptr, smc::tune_default, it_opnames, COMPI(F)}; static Registrar var##_reg(&var);
typedef cc::IterableList<HP, Item, il_less> IL_HP; typedef cc::IterableList<DHP, Item, il_less> IL_DHP;
typedef ItA<HP, IL_HP, KeyOps<IL_HP>, 0, false> I1; IT_SUBJECT(i1, "misc.iter_IterableList_HP", I1, gen, "cds/container/impl/iterable_list.h cds/intrusive/impl/iterable_list.h")
typedef ItA<DHP, IL_DHP, KeyOps<IL_DHP>, 0, false> I2; IT_SUBJECT(i2, "misc.iter_IterableList_DHP", I2, gen, "cds/container/impl/iterable_list.h cds/intrusive/impl/iterable_list.h")
typedef cc::MichaelHashSet<HP, IL_HP, ms_traits> MS_HP; typedef ItA<HP, MS_HP, KeyOps<MS_HP>, 1, false> I3; IT_SUBJECT(i3, "misc.iter_MichaelSet_Iterable_HP", I3, gen, "cds/container/michael_set.h cds/intrusive/michael_set.h over IterableList")
typedef cc::MichaelHashSet<DHP, IL_DHP, ms_traits> MS_DHP; typedef ItA<DHP, MS_DHP, KeyOps<MS_DHP>, 1, false> I4; IT_SUBJECT(i4, "misc.iter_MichaelSet_Iterable_DHP", I4, gen, "cds/container/michael_set.h over IterableList")
typedef cc::SplitListSet<HP, Item, sl_traits> SL_HP; typedef ItA<HP, SL_HP, KeyOps<SL_HP>, 1, false> I5; IT_SUBJECT(i5, "misc.iter_SplitListSet_Iterable_HP", I5, gen, "cds/container/split_list_set.h cds/intrusive/split_list.h over IterableList")
typedef cc::SplitListSet<DHP, Item, sl_traits> SL_DHP; typedef ItA<DHP, SL_DHP, KeyOps<SL_DHP>, 1, false> I6; IT_SUBJECT(i6, "misc.iter_SplitListSet_Iterable_DHP", I6, gen, "cds/container/split_list_set.h over IterableList")
typedef cc::FeldmanHashSet<HP, FItem, fs_traits> FS_HP; typedef ItA<HP, FS_HP, HashOps<FS_HP>, 2, true> I7; IT_SUBJECT(i7, "misc.iter_FeldmanHashSet_HP", I7, gen_feld, "cds/container/impl/feldman_hashset.h cds/intrusive/impl/feldman_hashset.h (forward and reverse iterators)")
typedef cc::FeldmanHashSet<RCU_GPB, FItem, fs_traits> FS_GPB; typedef ItA<RCU_GPB, FS_GPB, HashOps<FS_GPB>, 2, true> I9; IT_SUBJECT(i9, "misc.iter_FeldmanHashSet_RCU_gpb", I9, gen_feld, "cds/container/feldman_hashset_rcu.h cds/intrusive/feldman_hashset_rcu.h (forward and reverse iterators inside an RCU critical section)")
typedef cc::FeldmanHashSet<RCU_SHB, FItem, fs_traits> FS_SHB; typedef ItA<RCU_SHB, FS_SHB, HashOps<FS_SHB>, 2, true> I10; IT_SUBJECT(i10, "misc.iter_FeldmanHashSet_RCU_shb", I10, gen_feld, "cds/container/feldman_hashset_rcu.h cds/intrusive/feldman_hashset_rcu.h (forward and reverse iterators inside an RCU critical section)")
typedef cc::FeldmanHashSet<DHP, FItem, fs_traits> FS_DHP; typedef ItA<DHP, FS_DHP, HashOps<FS_DHP>, 2, true> I8; IT_SUBJECT(i8, "misc.iter_FeldmanHashSet_DHP", I8, gen_feld, "cds/container/impl/feldman_hashset.h (forward and reverse iterators)")
} // namespace
