// C06: MSQueue, MoirQueue, BasketQueue, OptimisticQueue (container and intrusive, HP and DHP, trait variants).
#include <cds/container/msqueue.h>
#include <cds/container/moir_queue.h>
#include <cds/container/basket_queue.h>
#include <cds/container/optimistic_queue.h>
#include <cds/intrusive/msqueue.h>
#include <cds/intrusive/moir_queue.h>
#include <cds/intrusive/basket_queue.h>
#include <cds/intrusive/optimistic_queue.h>
#include "seq_common.h"

using namespace seqc;
namespace cc = cds::container; namespace ci = cds::intrusive;

namespace {
struct Base { long model_override(const Program&) { return 0; } std::function<void(Ctx&)> post_check() { return std::function<void(Ctx&)>(); } static const bool pop_empty_unconstrained = false; long capacity() { return -1; } bool push_front(long, int) { return false; } bool pop_back(long&, int) { return false; } };

// ---- value containers
template <class GC, class Q> struct ValQ : Base {
    typedef typename SmrOf<GC>::type Smr; static const SeqModel::Kind kind = SeqModel::FIFO;
    Q q; explicit ValQ(const Program&) {}
    bool push(long v, int form) {
        switch (form) { case 1: return q.emplace(v); case 2: return q.enqueue_with([v](long& d) { d = v; }); case 3: { long t = v; return q.push(std::move(t)); } default: return q.enqueue(v); }
    }
    bool pop(long& v, int form) { if (form == 1) return q.dequeue_with([&v](long& s) { v = s; }); return form == 2 ? q.pop(v) : q.dequeue(v); }
    void probes(Ctx& c) { probe_stat(c, q.statistics(), 0); }
    template <class S> static auto probe_stat(Ctx& c, const S& s, int) -> decltype((void)s.m_BadTail.get()) { c.probe("stat_bad_tail", (long)s.m_BadTail.get()); c.probe("stat_enqueue_race", (long)s.m_EnqueueRace.get()); c.probe("stat_dequeue_race", (long)s.m_DequeueRace.get()); }
    template <class S> static void probe_stat(Ctx&, const S&, long) {}
};
struct ms_full : cc::msqueue::traits { typedef cds::atomicity::item_counter item_counter; typedef cds::opt::v::sequential_consistent memory_model; typedef cc::msqueue::stat<> stat; };
struct bq_full : cc::basket_queue::traits { typedef cds::atomicity::item_counter item_counter; typedef cds::opt::v::sequential_consistent memory_model; typedef cc::basket_queue::stat<> stat; };
struct oq_full : cc::optimistic_queue::traits { typedef cds::atomicity::item_counter item_counter; typedef cds::opt::v::sequential_consistent memory_model; typedef cc::optimistic_queue::stat<> stat; };

// ---- intrusive containers.  The returned item of an intrusive MS-style queue is still the queue's dummy node and is
// retired by a later dequeue, so the documented contract is that item memory is managed by the disposer; a disposer that
// frees at once would race with the caller reading its item.  The harness therefore never frees nodes during a run: the
// disposer only counts, and the oracle is "disposed at most once, and exactly once after
// the queue and the SMR singleton are gone".
struct NodeBook { long double_dispose = 0, early_dispose = 0; std::vector<void*> nodes; };
static NodeBook* g_book;
template <class Node> struct NodeDisposer { void operator()(Node* p) const { if (++p->disposed > 1) ++g_book->double_dispose; } };
template <class GC, class Node, class Q> struct IntQ : Base {
    typedef typename SmrOf<GC>::type Smr; static const SeqModel::Kind kind = SeqModel::FIFO;
    std::shared_ptr<NodeBook> book; std::unique_ptr<Q> q;
    explicit IntQ(const Program&) : book(new NodeBook()) { g_book = book.get(); q.reset(new Q()); }
    bool push(long v, int) { Node* n = new Node(); n->v = v; n->disposed = 0; n->dequeued = false; book->nodes.push_back(n); return q->enqueue(*n); }
    bool pop(long& v, int) { Node* n = q->dequeue(); if (!n) return false; v = n->v; n->dequeued = true; return true; }
    void probes(Ctx&) { for (void* p : book->nodes) static_cast<Node*>(p)->dequeued = true; /* the destructor may dispose what is left */ q.reset(); }
    std::function<void(Ctx&)> post_check() {
        std::shared_ptr<NodeBook> b = book;
        return [b](Ctx& c) {
            if (b->double_dispose) c.fail("double-dispose", "%ld intrusive queue nodes were disposed more than once", b->double_dispose);
            long never = 0; for (void* p : b->nodes) { Node* n = static_cast<Node*>(p); if (n->disposed == 0) ++never; delete n; }
            if (never) c.fail("never-disposed", "%ld intrusive queue nodes were never given to the disposer although queue and SMR singleton were destroyed", never);
            c.probe("intrusive_nodes", (long)b->nodes.size()); g_book = nullptr;
        };
    }
};
template <class GC> struct MsNode : ci::msqueue::node<GC> { long v; int disposed; bool dequeued; };
template <class GC> struct MsTraits : ci::msqueue::traits { typedef NodeDisposer<MsNode<GC>> disposer; typedef ci::msqueue::base_hook<cds::opt::gc<GC>> hook; typedef cds::atomicity::item_counter item_counter; };
template <class GC> struct BqNode : ci::basket_queue::node<GC> { long v; int disposed; bool dequeued; };
template <class GC> struct BqTraits : ci::basket_queue::traits { typedef NodeDisposer<BqNode<GC>> disposer; typedef ci::basket_queue::base_hook<cds::opt::gc<GC>> hook; };
template <class GC> struct OqNode : ci::optimistic_queue::node<GC> { long v; int disposed; bool dequeued; };
template <class GC> struct OqTraits : ci::optimistic_queue::traits { typedef NodeDisposer<OqNode<GC>> disposer; typedef ci::optimistic_queue::base_hook<cds::opt::gc<GC>> hook; };

template <int MinH, int PushForms, int PopForms> void genq(Rng& r, Program& p, int tier, const std::string&) { GenCfg g; g.push_forms = PushForms; g.pop_forms = PopForms; g.min_hazards = MinH; gen_program(r, p, tier, g); }

typedef cds::gc::HP HP; typedef cds::gc::DHP DHP;
#define COMPQ(f) "real: " f ", SMR (src/hp.cpp / src/dhp.cpp), back-off; simulated: scheduler, weak-CAS failures, heap addresses, eager reclamation between ops; oracle: Wing-Gong linearizability vs sequential FIFO incl. quiescent drain"

typedef ValQ<HP, cc::MSQueue<HP, long>> A_s1;
SEQ_SUBJECT(s1, "queue.MSQueue_HP", "C06", A_s1, (genq<3, 4, 3>), COMPQ("cds/container/msqueue.h cds/intrusive/msqueue.h"))
typedef ValQ<DHP, cc::MSQueue<DHP, long>> A_s2;
SEQ_SUBJECT(s2, "queue.MSQueue_DHP", "C06", A_s2, (genq<3, 4, 3>), COMPQ("cds/container/msqueue.h cds/intrusive/msqueue.h"))
typedef ValQ<HP, cc::MSQueue<HP, long, ms_full>> A_s3;
SEQ_SUBJECT(s3, "queue.MSQueue_HP_ic_seqcst_stat", "C06", A_s3, (genq<3, 4, 3>), COMPQ("cds/container/msqueue.h (item counter, seq_cst model, stat)"))
typedef ValQ<HP, cc::MoirQueue<HP, long>> A_s4;
SEQ_SUBJECT(s4, "queue.MoirQueue_HP", "C06", A_s4, (genq<3, 4, 3>), COMPQ("cds/container/moir_queue.h cds/intrusive/moir_queue.h"))
typedef ValQ<DHP, cc::MoirQueue<DHP, long, ms_full>> A_s5;
SEQ_SUBJECT(s5, "queue.MoirQueue_DHP", "C06", A_s5, (genq<3, 4, 3>), COMPQ("cds/container/moir_queue.h (item counter, seq_cst, stat)"))
typedef ValQ<HP, cc::BasketQueue<HP, long>> A_s6;
SEQ_SUBJECT(s6, "queue.BasketQueue_HP", "C06", A_s6, (genq<7, 4, 3>), COMPQ("cds/container/basket_queue.h cds/intrusive/basket_queue.h"))
typedef ValQ<DHP, cc::BasketQueue<DHP, long, bq_full>> A_s7;
SEQ_SUBJECT(s7, "queue.BasketQueue_DHP", "C06", A_s7, (genq<7, 4, 3>), COMPQ("cds/container/basket_queue.h (item counter, seq_cst, stat)"))
typedef ValQ<HP, cc::OptimisticQueue<HP, long>> A_s8;
SEQ_SUBJECT(s8, "queue.OptimisticQueue_HP", "C06", A_s8, (genq<6, 4, 3>), COMPQ("cds/container/optimistic_queue.h cds/intrusive/optimistic_queue.h"))
typedef ValQ<DHP, cc::OptimisticQueue<DHP, long, oq_full>> A_s9;
SEQ_SUBJECT(s9, "queue.OptimisticQueue_DHP", "C06", A_s9, (genq<6, 4, 3>), COMPQ("cds/container/optimistic_queue.h (item counter, seq_cst, stat)"))
typedef IntQ<HP, MsNode<HP>, ci::MSQueue<HP, MsNode<HP>, MsTraits<HP>>> A_i1;
SEQ_SUBJECT(i1, "queue.iMSQueue_HP", "C06", A_i1, (genq<3, 1, 1>), COMPQ("cds/intrusive/msqueue.h (harness-owned nodes, disposer frees)"))
typedef IntQ<DHP, MsNode<DHP>, ci::MSQueue<DHP, MsNode<DHP>, MsTraits<DHP>>> A_i2;
SEQ_SUBJECT(i2, "queue.iMSQueue_DHP", "C06", A_i2, (genq<3, 1, 1>), COMPQ("cds/intrusive/msqueue.h"))
typedef IntQ<HP, MsNode<HP>, ci::MoirQueue<HP, MsNode<HP>, MsTraits<HP>>> A_i3;
SEQ_SUBJECT(i3, "queue.iMoirQueue_HP", "C06", A_i3, (genq<3, 1, 1>), COMPQ("cds/intrusive/moir_queue.h"))
typedef IntQ<HP, BqNode<HP>, ci::BasketQueue<HP, BqNode<HP>, BqTraits<HP>>> A_i4;
SEQ_SUBJECT(i4, "queue.iBasketQueue_HP", "C06", A_i4, (genq<7, 1, 1>), COMPQ("cds/intrusive/basket_queue.h"))
typedef IntQ<DHP, BqNode<DHP>, ci::BasketQueue<DHP, BqNode<DHP>, BqTraits<DHP>>> A_i5;
SEQ_SUBJECT(i5, "queue.iBasketQueue_DHP", "C06", A_i5, (genq<7, 1, 1>), COMPQ("cds/intrusive/basket_queue.h"))
typedef IntQ<HP, OqNode<HP>, ci::OptimisticQueue<HP, OqNode<HP>, OqTraits<HP>>> A_i6;
SEQ_SUBJECT(i6, "queue.iOptimisticQueue_HP", "C06", A_i6, (genq<6, 1, 1>), COMPQ("cds/intrusive/optimistic_queue.h"))
typedef IntQ<DHP, OqNode<DHP>, ci::OptimisticQueue<DHP, OqNode<DHP>, OqTraits<DHP>>> A_i7;
SEQ_SUBJECT(i7, "queue.iOptimisticQueue_DHP", "C06", A_i7, (genq<6, 1, 1>), COMPQ("cds/intrusive/optimistic_queue.h"))
} // namespace
