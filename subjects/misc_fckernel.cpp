// C23: the flat-combining kernel under a tiny harness container — every published request is executed exactly once, by one
// combiner at a time, the requester sees the response only after execution, publication records of exited threads are
// reclaimed and never touched afterwards (records come from a poisoning allocator that never reuses memory).
#include <cds/init.h>
#include <cds/algo/flat_combining.h>
#include <memory>
#include <mutex>
#include "../harness/core.h"

namespace dsim { extern thread_local int t_bypass; }
using namespace vh;
namespace fc = cds::algo::flat_combining;
namespace {
enum { O_REQ = 0, O_EXCL = 1 };
const char* const opnames[] = {"request", "invoke_exclusive", nullptr};

// ---- poisoning allocator for publication records: memory is never reused, freed blocks must stay 0xDD
struct Grave { void* p; size_t n; };
static std::vector<Grave>* g_graves; static Ctx* g_ctx; static long g_rec_alloc, g_rec_free;
template <class T> struct PoisonAlloc {
    typedef T value_type; typedef T* pointer; typedef const T* const_pointer; typedef T& reference; typedef const T& const_reference; typedef size_t size_type; typedef ptrdiff_t difference_type;
    template <class U> struct rebind { typedef PoisonAlloc<U> other; };
    PoisonAlloc() {} template <class U> PoisonAlloc(const PoisonAlloc<U>&) {}
    T* allocate(size_t n, const void* = nullptr) { ++g_rec_alloc; g_ctx->probe("pubrecords_allocated"); return (T*)::operator new(n * sizeof(T)); }
    void deallocate(T* p, size_t n) { memset((void*)p, 0xDD, n * sizeof(T)); g_graves->push_back(Grave{p, n * sizeof(T)}); ++g_rec_free; g_ctx->probe("pubrecords_freed"); }
    template <class U, class... A> void construct(U* p, A&&... a) { new ((void*)p) U(std::forward<A>(a)...); }
    template <class U> void destroy(U* p) { p->~U(); }
    size_t max_size() const { return size_t(-1) / sizeof(T); }
    bool operator==(const PoisonAlloc&) const { return true; } bool operator!=(const PoisonAlloc&) const { return false; }
};

struct Req { int executed; uint64_t exec_step; long result; };
template <class Traits> class Tiny : public fc::container {
public:
    struct rec : fc::publication_record { long req; long arg; long result; };
    typedef fc::kernel<rec, Traits> kernel_t;
    kernel_t m_fc; Ctx& ctx; std::vector<Req>& reqs; int inside; long state; bool batch;
    Tiny(Ctx& c, std::vector<Req>& r, unsigned compact, unsigned pass, bool b) : m_fc(compact, pass), ctx(c), reqs(r), inside(0), state(0), batch(b) {}
    long request(long id, long arg) {
        auto p = m_fc.acquire_record(); p->req = id; p->arg = arg; p->result = -1;
        if (batch) m_fc.batch_combine(fc::req_Operation + 1, p, *this); else m_fc.combine(fc::req_Operation + 1, p, *this);
        long res = p->result;
        if (!p->is_done()) ctx.fail("response-before-execution", "combine() returned for request %ld although the record is not marked done", id);
        m_fc.release_record(p); return res;
    }
    void exclusive() { m_fc.invoke_exclusive([this]() { enter(); dsim::point(dsim::K_USER); leave(); }); }
    void enter() { if (++inside != 1) ctx.fail("two-combiners", "two threads are inside the combiner section at the same time"); }
    void leave() { --inside; }
    void execute(rec* p) {
        if (p->req < 0 || p->req >= (long)reqs.size()) { ctx.fail("garbage-request", "combiner was given a record with request id %ld (freed or corrupted publication record)", p->req); return; }
        Req& r = reqs[p->req]; if (++r.executed > 1) ctx.fail("executed-twice", "request %ld was executed %d times", p->req, r.executed);
        r.exec_step = dsim::now_step(); state += p->arg; r.result = state; p->result = state;
    }
    void fc_apply(rec* p) { enter(); dsim::point(dsim::K_USER); execute(p); leave(); }
    void fc_process(typename kernel_t::iterator b, typename kernel_t::iterator e) {
        enter();
        for (auto it = b; it != e; ++it) if (it->op(atomics::memory_order_acquire) >= fc::req_Operation && (it->req & 1)) { execute(&*it); m_fc.operation_done(*it); }   // serve odd request ids in batch mode, the rest through fc_apply
        leave();
    }
};
template <class Wait> struct traits_of : fc::traits { typedef Wait wait_strategy; typedef PoisonAlloc<int> allocator; typedef fc::stat<> stat; };
template <class Wait> struct traits_mutex : traits_of<Wait> { typedef std::mutex lock_type; };

template <class Traits> void run(Ctx& ctx) {
    const Program& P = *ctx.prog; g_ctx = &ctx;
    std::vector<Grave> graves; g_graves = &graves; g_rec_alloc = g_rec_free = 0;
    int total = 0; for (auto& t : P.threads) for (auto& o : t.ops) if (o.id >= total) total = o.id + 1;
    std::vector<Req> reqs(total + 1, Req{0, 0, 0});
    {
        Tiny<Traits> tiny(ctx, reqs, (unsigned)P.knob("compact", 1), (unsigned)P.knob("pass", 1), P.knob("batch") != 0);
        ctx.run_clients(
            [&](int) {},
            [&](int t, const Op& op) {
                int h = ctx.begin_op(t, op); long res = 0;
                if (op.kind == O_EXCL) tiny.exclusive();
                else {
                    res = tiny.request(op.id, op.a);
                    Req& r = reqs[op.id];
                    if (r.executed != 1) ctx.fail(r.executed ? "executed-twice" : "never-executed", "combine() returned for request %d but it was executed %d times", op.id, r.executed);
                    else if (res != r.result) ctx.fail("wrong-response", "request %d: the requester read response %ld but the execution produced %ld", op.id, res, r.result);
                }
                ctx.end_op(h, res);
            },
            [&](int) {});
        auto const& st = tiny.m_fc.statistics();
        ctx.probe("fc_combining_passes", (long)st.m_nCombiningCount.get()); ctx.probe("fc_pubrecords_deleted", (long)st.m_nPubRecordDeleted.get()); ctx.probe("fc_compact_list", (long)st.m_nCompactPublicationList.get()); ctx.probe("fc_passive_to_combiner", (long)st.m_nPassiveToCombiner.get()); ctx.probe("fc_wakeups_by_notify", (long)st.m_nWakeupByNotifying.get());
    }
    // all client threads have exited and the kernel is destroyed: every publication record must have been reclaimed (by compact_list or by ~kernel)
    if (g_rec_alloc != g_rec_free) ctx.fail("record-leaked", "%ld publication records were allocated but only %ld were freed although every thread has exited and the kernel was destroyed", g_rec_alloc, g_rec_free);
    // every request of a finished client was executed exactly once (checked at return); freed records must be untouched
    for (auto& g : graves) { const unsigned char* b = (const unsigned char*)g.p; for (size_t i = 0; i < g.n; i++) if (b[i] != 0xDD) { ctx.fail("freed-record-written", "a publication record was written to after it had been freed (offset %zu)", i); break; } ::operator delete(g.p); }
    g_graves = nullptr; g_ctx = nullptr;
}
void gen(Rng& r, Program& p, int tier, const std::string&) {
    int nth = r.range(2, tier ? 5 : 4); p.set("compact", r.pick({1, 1, 2, 4})); p.set("pass", r.range(1, 3)); p.set("batch", r.chance(300)); p.threads.resize(nth);
    for (int t = 0; t < nth; t++) { if (t > 0 && r.chance(400)) p.threads[t].start_after = r.below(t); int nops = r.range(1, 4); for (int k = 0; k < nops; k++) { if (r.chance(120)) p.add(t, O_EXCL); else p.add(t, O_REQ, r.range(1, 9)); } }
}
void tune(dsim::Params& p, Rng& r, const Program&, const std::string&) { p.f1_permille = r.pick({0, 20, 80}); p.f6_permille = r.pick({0, 10, 40}); p.f8_permille = r.pick({0, 10, 50}); p.soft_cap = 100000; p.hard_cap = 200000; }
#define COMP(f) "real: cds/algo/flat_combining/kernel.h wait_strategy.h defs.h (" f "), boost TSS thread-exit cleanup; simulated: scheduler, mutex/condvar, sleeps / time-outs (early time-outs, spurious wake-ups), real thread exit; harness: counting container, poisoning never-reusing allocator for publication records; oracle: per-request execution count, response-after-execution, single combiner, freed records untouched; a request that can never complete ends the run as hang/deadlock = violation"
#define FC_SUBJECT(var, NAME, TR, F) static const Subject var = {NAME, "C23", gen, run<TR>, nullptr, tune, opnames, COMP(F)}; static Registrar var##_reg(&var);
FC_SUBJECT(k1, "misc.fc_kernel_backoff", traits_of<fc::wait_strategy::backoff<>>, "wait_strategy::backoff, spin lock")
FC_SUBJECT(k2, "misc.fc_kernel_empty", traits_of<fc::wait_strategy::empty>, "wait_strategy::empty, spin lock")
FC_SUBJECT(k3, "misc.fc_kernel_smsc", traits_of<fc::wait_strategy::single_mutex_single_condvar<2>>, "single_mutex_single_condvar")
FC_SUBJECT(k4, "misc.fc_kernel_smmc", traits_of<fc::wait_strategy::single_mutex_multi_condvar<2>>, "single_mutex_multi_condvar")
FC_SUBJECT(k5, "misc.fc_kernel_mmmc", traits_of<fc::wait_strategy::multi_mutex_multi_condvar<2>>, "multi_mutex_multi_condvar")
FC_SUBJECT(k6, "misc.fc_kernel_mmmc_mutex", traits_mutex<fc::wait_strategy::multi_mutex_multi_condvar<2>>, "multi_mutex_multi_condvar, std::mutex combiner lock")
} // namespace
