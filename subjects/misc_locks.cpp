// C22: spin_lock, reentrant_spin_lock, lock_array, injecting_monitor, pool_monitor — mutual exclusion (occupancy counters),
// reentrant ownership, and pool_monitor's lock life cycle (a pool lock is returned only when nobody holds or awaits it and is
// never bound to two nodes at once).
#include <cds/init.h>
#include <cds/sync/spinlock.h>
#include <cds/sync/lock_array.h>
#include <cds/sync/injecting_monitor.h>
#include <cds/sync/pool_monitor.h>
#include <cds/memory/vyukov_queue_pool.h>
#include <memory>
#include <mutex>
#include "../harness/core.h"

namespace dsim { extern thread_local int t_bypass; }
using namespace vh;
namespace {
enum { O_CS = 0 };   // a = lock/node index, b = hold points, c = mode (0 lock, 1 try_lock, 2 nested twice, 3 nested lock+try_lock)
const char* const opnames[] = {"critical_section", nullptr};
const int MAXL = 4;

struct Occ { int inside[MAXL]; int owner[MAXL]; int depth[MAXL]; };
static Ctx* g_ctx; static Occ* g_occ;
void enter(int l, int t, bool reentrant) {
    Occ& o = *g_occ;
    if (o.inside[l] > 0 && !(reentrant && o.owner[l] == t)) g_ctx->fail("mutual-exclusion", "client %d entered the critical section of lock/node %d while client %d is inside it", t, l, o.owner[l]);
    ++o.inside[l]; o.owner[l] = t; ++o.depth[l];
}
void leave(int l, int t) { Occ& o = *g_occ; if (o.owner[l] != t) g_ctx->fail("mutual-exclusion", "client %d leaves lock/node %d owned by client %d", t, l, o.owner[l]); --o.inside[l]; if (--o.depth[l] == 0) o.owner[l] = -1; }

// ---- adapters: acquire(l, try) / release(l); NL locks
template <class L> struct PlainLocks {
    static const bool reentrant = false; L lk[MAXL]; explicit PlainLocks(const Program&) {}
    bool acquire(int l, bool tr) { if (tr) return lk[l].try_lock(); lk[l].lock(); return true; }
    void release(int l) { lk[l].unlock(); }
    void inside_check(int, int) {}
    int occ_index(int l) { return l; }
};
template <class L> struct ReentLocks : PlainLocks<L> { static const bool reentrant = true; explicit ReentLocks(const Program& p) : PlainLocks<L>(p) {} };
template <class L, class Policy> struct ArrLocks {
    static const bool reentrant = false; cds::sync::lock_array<L, Policy> arr; size_t cell[MAXL][8]; int top[MAXL]; int n;
    static cds::sync::mod_select_policy mk(size_t, cds::sync::mod_select_policy*) { return cds::sync::mod_select_policy(); }
    static cds::sync::pow2_select_policy mk(size_t n, cds::sync::pow2_select_policy*) { return cds::sync::pow2_select_policy(n); }
    explicit ArrLocks(const Program& p) : arr((size_t)p.knob("array_size", 2), mk((size_t)p.knob("array_size", 2), (Policy*)nullptr)), n((int)p.knob("array_size", 2)) { for (int i = 0; i < MAXL; i++) top[i] = 0; }
    int occ_index(int l) { return l % n; }
    // hints l, l + n, l + 2n map to the same cell under both policies (array size is a power of two)
    bool acquire(int l, bool tr) { size_t hint = (size_t)l + (size_t)n * (size_t)(dsim::self_id() % 3); size_t c; if (tr) { c = arr.try_lock(hint); if (c == (size_t)-1 || c >= arr.size()) return false; } else c = arr.lock(hint); if ((int)c != l % n) g_ctx->fail("lock-array-cell", "hint %zu locked cell %zu instead of %d", hint, c, l % n); return true; }
    void release(int l) { arr.unlock((size_t)(l % n)); }
    void inside_check(int, int) {}
};
template <class Mon> struct Node { int idx; typename Mon::node_injection m_SyncMonitorInjection; };
template <class L> struct InjMon {
    typedef cds::sync::injecting_monitor<L> Mon; static const bool reentrant = false; Mon mon; Node<Mon> nodes[MAXL]; explicit InjMon(const Program&) {}
    bool acquire(int l, bool) { mon.lock(nodes[l]); return true; }
    void release(int l) { mon.unlock(nodes[l]); }
    void inside_check(int, int) {}
    int occ_index(int l) { return l; }
};
// pool_monitor over a checked lock pool
struct CheckedMutex { std::mutex m; int holder = -1; int waiters = 0; void lock() { ++waiters; m.lock(); --waiters; holder = dsim::self_id(); } bool try_lock() { if (!m.try_lock()) return false; holder = dsim::self_id(); return true; } void unlock() { holder = -1; m.unlock(); } };
struct CheckedPool {
    typedef CheckedMutex value_type; cds::memory::vyukov_queue_pool<CheckedMutex> pool; long outstanding = 0;
    explicit CheckedPool(size_t n) : pool(n) {}
    value_type* allocate(size_t n) { value_type* p = pool.allocate(n); ++outstanding; g_ctx->probe("pool_monitor_lock_allocated"); if (p->holder != -1 || p->waiters != 0) g_ctx->fail("pool-lock-in-use", "pool_monitor took a lock from the pool that is still held or awaited"); return p; }
    void deallocate(value_type* p, size_t n) { --outstanding; if (p->holder != -1 || p->waiters != 0) g_ctx->fail("pool-lock-in-use", "pool_monitor returned a node lock to the pool while client thread t%d holds it / %d threads await it", p->holder, p->waiters); pool.deallocate(p, n); }
};
struct PoolMon {
    typedef cds::sync::pool_monitor<CheckedPool, cds::backoff::Default, true> Mon; static const bool reentrant = false; Mon mon; Node<Mon> nodes[MAXL]; int nn;
    explicit PoolMon(const Program& p) : mon((size_t)p.knob("pool_capacity", 4)), nn((int)p.knob("locks", 2)) {}
    bool acquire(int l, bool) { mon.lock(nodes[l]); return true; }
    void release(int l) { mon.unlock(nodes[l]); }
    int occ_index(int l) { return l; }
    void inside_check(int l, int t) {
        CheckedMutex* mine = nodes[l].m_SyncMonitorInjection.m_pLock;
        if (!mine) { g_ctx->fail("pool-lock-binding", "client %d is inside node %d but the node has no lock bound", t, l); return; }
        for (int j = 0; j < nn; j++) if (j != l && nodes[j].m_SyncMonitorInjection.m_pLock == mine) g_ctx->fail("pool-lock-binding", "one pool lock is bound to nodes %d and %d at the same time", l, j);
    }
};

template <class A> void run(Ctx& ctx) {
    const Program& P = *ctx.prog; g_ctx = &ctx;
    Occ occ; memset(&occ, 0, sizeof occ); for (int i = 0; i < MAXL; i++) occ.owner[i] = -1; g_occ = &occ;
    {
        std::unique_ptr<A> a(new A(P)); int nl = (int)P.knob("locks", 2);
        ctx.run_clients(
            [&](int) {},
            [&](int t, const Op& op) {
                int h = ctx.begin_op(t, op); int l = (int)op.a % nl; long res = 1;
                bool tr = op.c == 1 && !std::is_same<A, PoolMon>::value;
                if (!a->acquire(l, tr)) { res = 0; ctx.end_op(h, res); return; }
                int oi = a->occ_index(l); enter(oi, t, A::reentrant); a->inside_check(l, t);
                if (A::reentrant && op.c >= 2) {
                    bool ok2 = a->acquire(l, op.c == 3);
                    if (!ok2) g_ctx->fail("reentrant-refused", "owner's nested %s of a reentrant lock failed", op.c == 3 ? "try_lock" : "lock");
                    else { enter(oi, t, true); for (long k = 0; k < op.b; k++) dsim::point(dsim::K_USER); leave(oi, t); a->release(l); }
                    // after the inner unlock the lock must still be held by us: occupancy stays 1, checked by every other entrant
                }
                for (long k = 0; k < op.b; k++) dsim::point(dsim::K_USER);
                leave(oi, t); a->release(l);
                ctx.end_op(h, res);
            },
            [&](int) {});
        for (int i = 0; i < nl; i++) if (occ.inside[i] != 0) ctx.fail("mutual-exclusion", "occupancy of lock %d is %d at quiescence", i, occ.inside[i]);
    }
    g_ctx = nullptr; g_occ = nullptr;
}

void gen(Rng& r, Program& p, int tier, const std::string&) {
    int nth = r.range(2, tier ? 4 : 3); int nl = r.range(1, 3); p.set("locks", nl); p.set("array_size", r.pick({1, 2, 4})); p.set("pool_capacity", r.pick({1, 2, 4}));
    p.threads.resize(nth);
    for (int t = 0; t < nth; t++) { if (t > 0 && r.chance(120)) p.threads[t].start_after = r.below(t); int nops = r.range(1, 5); for (int k = 0; k < nops; k++) p.add(t, O_CS, r.below(nl), r.pick({0, 1, 3, 8}), r.below(4)); }
}
void tune(dsim::Params& p, Rng& r, const Program&, const std::string&) { p.f1_permille = r.pick({0, 20, 80}); if (r.chance(400)) { p.tso_permille = r.pick({300, 700, 900}); p.tso_residency = r.pick({64, 512}); } p.soft_cap = 60000; p.hard_cap = 120000; }
#define COMP(f) "real: " f "; simulated: scheduler, weak-CAS failures, x86-TSO store buffer, back-off spin hints / yields, std::mutex; oracle: per-lock occupancy counter (<= 1, or one owner with depth >= 1 for reentrant locks), lock-pool life-cycle checks"
#define LK_SUBJECT(var, NAME, T, F) static const Subject var = {NAME, "C22", gen, run<T>, nullptr, tune, opnames, COMP(F)}; static Registrar var##_reg(&var);
typedef PlainLocks<cds::sync::spin_lock<cds::backoff::Default>> L1; LK_SUBJECT(l1, "misc.spin_lock_default", L1, "cds/sync/spinlock.h")
typedef PlainLocks<cds::sync::spin_lock<cds::backoff::empty>> L2; LK_SUBJECT(l2, "misc.spin_lock_backoff_empty", L2, "cds/sync/spinlock.h cds/algo/backoff_strategy.h")
typedef PlainLocks<cds::sync::spin_lock<cds::backoff::yield>> L3; LK_SUBJECT(l3, "misc.spin_lock_backoff_yield", L3, "cds/sync/spinlock.h")
typedef PlainLocks<cds::sync::spin_lock<cds::backoff::pause>> L4; LK_SUBJECT(l4, "misc.spin_lock_backoff_pause", L4, "cds/sync/spinlock.h")
typedef ReentLocks<cds::sync::reentrant_spin32> L5; LK_SUBJECT(l5, "misc.reentrant_spin32", L5, "cds/sync/spinlock.h (reentrant, 32 bit)")
typedef ReentLocks<cds::sync::reentrant_spin64> L6; LK_SUBJECT(l6, "misc.reentrant_spin64", L6, "cds/sync/spinlock.h (reentrant, 64 bit)")
typedef ArrLocks<cds::sync::spin, cds::sync::mod_select_policy> L7; LK_SUBJECT(l7, "misc.lock_array_mod", L7, "cds/sync/lock_array.h (mod_select_policy)")
typedef ArrLocks<std::mutex, cds::sync::pow2_select_policy> L8; LK_SUBJECT(l8, "misc.lock_array_pow2_mutex", L8, "cds/sync/lock_array.h (pow2_select_policy, std::mutex)")
typedef InjMon<cds::sync::spin> L9; LK_SUBJECT(l9, "misc.injecting_monitor_spin", L9, "cds/sync/injecting_monitor.h cds/sync/monitor.h")
typedef InjMon<std::mutex> L10; LK_SUBJECT(l10, "misc.injecting_monitor_mutex", L10, "cds/sync/injecting_monitor.h")
static const Subject l11 = {"misc.pool_monitor", "C22", gen, run<PoolMon>, nullptr, tune, opnames, COMP("cds/sync/pool_monitor.h cds/memory/vyukov_queue_pool.h (checked lock pool)")}; static Registrar l11_reg(&l11);
} // namespace
