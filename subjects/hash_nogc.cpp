// C14 (insert-only variants): MichaelHashSet/Map and SplitListSet/Map over cds::gc::nogc.
#include <cds/container/michael_list_nogc.h>
#include <cds/container/lazy_list_nogc.h>
#include <cds/container/michael_kvlist_nogc.h>
#include <cds/container/lazy_kvlist_nogc.h>
#include <cds/container/michael_set_nogc.h>
#include <cds/container/michael_map_nogc.h>
#include <cds/container/split_list_set_nogc.h>
#include <cds/container/split_list_map_nogc.h>
#include "setmap_common.h"

using namespace smc;
namespace cc = cds::container;
namespace {
typedef cds::gc::nogc NOGC;
struct ml_less : cc::michael_list::traits { typedef Less less; };
struct ll_cmp : cc::lazy_list::traits { typedef Cmp compare; };
struct ms_traits : cc::michael_set::traits { typedef Hash hash; typedef cds::atomicity::item_counter item_counter; };
struct mm_traits : cc::michael_map::traits { typedef Hash hash; typedef cds::atomicity::item_counter item_counter; };
template <class Tag, bool Dyn> struct sl_traits : cc::split_list::traits {
    typedef Hash hash; typedef Tag ordered_list; static const bool dynamic_bucket_table = Dyn; typedef cds::atomicity::item_counter item_counter; typedef cc::split_list::stat<> stat;
    struct ordered_list_traits : cc::michael_list::traits { typedef Less less; };
};
template <bool Dyn> struct sl_traits_lazy : cc::split_list::traits {
    typedef Hash hash; typedef cc::lazy_list_tag ordered_list; static const bool dynamic_bucket_table = Dyn; typedef cds::atomicity::item_counter item_counter; typedef cc::split_list::stat<> stat;
    struct ordered_list_traits : cc::lazy_list::traits { typedef Cmp compare; };
};
typedef Cfg<CAPS_NOGC, false, false> C_nogc;
template <class S> struct MSet : NogcSetA<S, C_nogc> { explicit MSet(const Program& p) { this->s.reset(new S((size_t)p.knob("max_items", 4), (size_t)p.knob("load_factor", 1))); } };
template <class S> struct MMap : NogcMapA<S, C_nogc> { explicit MMap(const Program& p) { this->s.reset(new S((size_t)p.knob("max_items", 4), (size_t)p.knob("load_factor", 1))); } };
template <class S> void split_probes(Ctx& c, S& s) { auto const& st = s.statistics(); c.probe("split_bucket_inits", (long)st.m_nInitBucketRecursive.get() + (long)st.m_nInitBucketContention.get()); c.probe("split_buckets_created", (long)st.m_nBucketCount.get()); c.probe("split_bucket_init_contention", (long)st.m_nInitBucketContention.get()); }
template <class S> struct SSet : NogcSetA<S, C_nogc> { explicit SSet(const Program& p) { this->s.reset(new S((size_t)p.knob("item_count", 2), (size_t)p.knob("load_factor", 1))); } bool consistent(std::string& why) { std::vector<long> ks; this->traverse(ks); return split_order_ok(ks, why); } void probes(Ctx& c) { split_probes(c, *this->s); } };
template <class S> struct SMap : NogcMapA<S, C_nogc> { explicit SMap(const Program& p) { this->s.reset(new S((size_t)p.knob("item_count", 2), (size_t)p.knob("load_factor", 1))); } bool consistent(std::string& why) { std::vector<long> ks; this->traverse(ks); return split_order_ok(ks, why); } void probes(Ctx& c) { split_probes(c, *this->s); } };
void gen_m(Rng& r, Program& p, int tier, const std::string&) { GenCfg g; g.caps = CAPS_NOGC; g.hash_modes = 4; g.nkeys_hot = 6; g.nkeys_cold = 2; g.max_ops = 6; gen_program(r, p, tier, g); p.set("max_items", r.pick({1, 2, 4, 8})); p.set("load_factor", r.pick({1, 1, 2})); }
void gen_s(Rng& r, Program& p, int tier, const std::string&) { GenCfg g; g.caps = CAPS_NOGC; g.hash_modes = 4; g.nkeys_hot = 6; g.nkeys_cold = 2; g.max_ops = 6; gen_program(r, p, tier, g); p.set("item_count", r.pick({2, 2, 4})); p.set("load_factor", 1); }
#define COMPN(f) "real: " f " + the nogc ordered list (insert-only); simulated: scheduler, weak-CAS failures, stalls, late threads, degenerate hash functions; oracle: linearizability vs key->instance map, quiescent find, exact-once traversal, size()"
#define NS(var, NAME, A, GEN, PROPS, F) typedef A T_##var; SM_SUBJECT(var, NAME, PROPS, T_##var, GEN, COMPN(F))
typedef cc::MichaelHashSet<NOGC, cc::MichaelList<NOGC, Item, ml_less>, ms_traits> S1; NS(s1, "hash.MichaelSet_MichaelList_nogc", MSet<S1>, gen_m, "C14,C20", "cds/container/michael_set_nogc.h")
typedef cc::MichaelHashSet<NOGC, cc::LazyList<NOGC, Item, ll_cmp>, ms_traits> S2; NS(s2, "hash.MichaelSet_LazyList_nogc", MSet<S2>, gen_m, "C14,C20", "cds/container/michael_set_nogc.h")
typedef cc::MichaelHashMap<NOGC, cc::MichaelKVList<NOGC, long, long, ml_less>, mm_traits> M1; NS(m1, "hash.MichaelMap_MichaelKVList_nogc", MMap<M1>, gen_m, "C14,C20", "cds/container/michael_map_nogc.h")
typedef cc::MichaelHashMap<NOGC, cc::LazyKVList<NOGC, long, long, ll_cmp>, mm_traits> M2; NS(m2, "hash.MichaelMap_LazyKVList_nogc", MMap<M2>, gen_m, "C14,C20", "cds/container/michael_map_nogc.h")
typedef cc::SplitListSet<NOGC, Item, sl_traits<cc::michael_list_tag, true>> S3; NS(s3, "hash.SplitListSet_Michael_nogc_dyn", SSet<S3>, gen_s, "C14,C17,C18,C20", "cds/container/split_list_set_nogc.h cds/intrusive/split_list_nogc.h")
typedef cc::SplitListSet<NOGC, Item, sl_traits_lazy<false>> S4; NS(s4, "hash.SplitListSet_Lazy_nogc_static", SSet<S4>, gen_s, "C14,C17,C18,C20", "cds/container/split_list_set_nogc.h cds/intrusive/split_list_nogc.h")
typedef cc::SplitListMap<NOGC, long, long, sl_traits<cc::michael_list_tag, false>> M3; NS(m3, "hash.SplitListMap_Michael_nogc_static", SMap<M3>, gen_s, "C14,C17,C18,C20", "cds/container/split_list_map_nogc.h")
typedef cc::SplitListMap<NOGC, long, long, sl_traits_lazy<true>> M4; NS(m4, "hash.SplitListMap_Lazy_nogc_dyn", SMap<M4>, gen_s, "C14,C17,C18,C20", "cds/container/split_list_map_nogc.h")
} // namespace
