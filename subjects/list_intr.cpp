// C13 (intrusive variants): intrusive::MichaelList / LazyList / IterableList with base and member hooks, incl. unlink() and
// exactly-once disposer accounting.
#include <cds/intrusive/michael_list_hp.h>
#include <cds/intrusive/michael_list_dhp.h>
#include <cds/intrusive/michael_list_rcu.h>
#include <cds/intrusive/lazy_list_hp.h>
#include <cds/intrusive/lazy_list_dhp.h>
#include <cds/intrusive/lazy_list_rcu.h>
#include <cds/intrusive/iterable_list_hp.h>
#include <cds/intrusive/iterable_list_dhp.h>
#include "intrusive_common.h"

using namespace smc;
namespace ci = cds::intrusive;
namespace {
typedef cds::gc::HP HP; typedef cds::gc::DHP DHP;
template <class GC> struct ml_base : ci::michael_list::traits { typedef ci::michael_list::base_hook<cds::opt::gc<GC>> hook; typedef Less less; typedef IDisp disposer; typedef cds::atomicity::item_counter item_counter; };
template <class GC> struct mlN : BNode<ci::michael_list::node<GC>> { mlN(long k, long i) : BNode<ci::michael_list::node<GC>>(k, i) {} };
template <class GC> struct mlM : MNode<ci::michael_list::node<GC>> { mlM(long k, long i) : MNode<ci::michael_list::node<GC>>(k, i) {} };
template <class GC> struct ml_member : ci::michael_list::traits { typedef ci::michael_list::member_hook<offsetof(mlM<GC>, hMember), cds::opt::gc<GC>> hook; typedef Cmp compare; typedef IDisp disposer; typedef cds::atomicity::item_counter item_counter; typedef ci::michael_list::stat<> stat; };
template <class GC> struct ll_base : ci::lazy_list::traits { typedef ci::lazy_list::base_hook<cds::opt::gc<GC>> hook; typedef Less less; typedef IDisp disposer; typedef cds::atomicity::item_counter item_counter; };
template <class GC> struct llN : BNode<ci::lazy_list::node<GC>> { llN(long k, long i) : BNode<ci::lazy_list::node<GC>>(k, i) {} };
template <class GC> struct llM : MNode<ci::lazy_list::node<GC>> { llM(long k, long i) : MNode<ci::lazy_list::node<GC>>(k, i) {} };
template <class GC> struct ll_member : ci::lazy_list::traits { typedef ci::lazy_list::member_hook<offsetof(llM<GC>, hMember), cds::opt::gc<GC>> hook; typedef Cmp compare; typedef IDisp disposer; typedef cds::atomicity::item_counter item_counter; typedef ci::lazy_list::stat<> stat; };
struct il_tr : ci::iterable_list::traits { typedef Less less; typedef IDisp disposer; typedef cds::atomicity::item_counter item_counter; typedef ci::iterable_list::stat<> stat; };

typedef Cfg<CAPS_FULL> C_full; typedef Cfg<CAPS_FULL, true> C_repl; typedef Cfg<CAPS_FULL, false, true, true, true, true> C_lazy_rcu;
void gen(Rng& r, Program& p, int tier, const std::string&) { GenCfg g; g.min_hazards = 8; g.nkeys_hot = r.pick({3, 3, 5}); g.insert_forms = 2; g.erase_forms = 3; gen_program(r, p, tier, g); }
#define COMPI(f) "real: " f ", SMR (HP/DHP src, RCU headers); simulated: scheduler, weak-CAS failures, stalls, thread churn, eager reclamation, (RCU) mutex/condvar/signals; harness: harness-owned nodes, counting disposer; oracle: linearizability vs key->instance map (unlink() as an erase of that very instance), quiescent find / traversal / size(), every linked node disposed exactly once and no rejected node disposed after container and SMR destruction"
#define ILIST(var, NAME, GC, LIST, NODE, CFG, F) typedef IntrA<GC, LIST, NODE, CFG> T_##var; SM_SUBJECT(var, NAME, "C13,C18,C20", T_##var, gen, COMPI(F))
typedef ci::MichaelList<HP, mlN<HP>, ml_base<HP>> A1; ILIST(a1, "list.iMichaelList_HP_base", HP, A1, mlN<HP>, C_full, "cds/intrusive/impl/michael_list.h (base hook)")
typedef ci::MichaelList<DHP, mlM<DHP>, ml_member<DHP>> A2; ILIST(a2, "list.iMichaelList_DHP_member", DHP, A2, mlM<DHP>, C_full, "cds/intrusive/impl/michael_list.h (member hook)")
typedef ci::MichaelList<RCU_GPB, mlN<RCU_GPB>, ml_base<RCU_GPB>> A3; ILIST(a3, "list.iMichaelList_RCU_gpb", RCU_GPB, A3, mlN<RCU_GPB>, C_full, "cds/intrusive/michael_list_rcu.h")
typedef ci::MichaelList<RCU_SHB, mlM<RCU_SHB>, ml_member<RCU_SHB>> A4; ILIST(a4, "list.iMichaelList_RCU_shb_member", RCU_SHB, A4, mlM<RCU_SHB>, C_full, "cds/intrusive/michael_list_rcu.h (member hook)")
typedef ci::LazyList<HP, llN<HP>, ll_base<HP>> B1; ILIST(b1, "list.iLazyList_HP_base", HP, B1, llN<HP>, C_full, "cds/intrusive/impl/lazy_list.h (base hook)")
typedef ci::LazyList<DHP, llM<DHP>, ll_member<DHP>> B2; ILIST(b2, "list.iLazyList_DHP_member", DHP, B2, llM<DHP>, C_full, "cds/intrusive/impl/lazy_list.h (member hook)")
typedef ci::LazyList<RCU_GPI, llN<RCU_GPI>, ll_base<RCU_GPI>> B3; ILIST(b3, "list.iLazyList_RCU_gpi", RCU_GPI, B3, llN<RCU_GPI>, C_lazy_rcu, "cds/intrusive/lazy_list_rcu.h")
typedef ci::LazyList<RCU_GPT, llN<RCU_GPT>, ll_base<RCU_GPT>> B4; ILIST(b4, "list.iLazyList_RCU_gpt", RCU_GPT, B4, llN<RCU_GPT>, C_lazy_rcu, "cds/intrusive/lazy_list_rcu.h")
typedef ci::IterableList<HP, PNode, il_tr> C1; ILIST(c1, "list.iIterableList_HP", HP, C1, PNode, C_repl, "cds/intrusive/impl/iterable_list.h")
typedef ci::IterableList<DHP, PNode, il_tr> C2; ILIST(c2, "list.iIterableList_DHP", DHP, C2, PNode, C_repl, "cds/intrusive/impl/iterable_list.h")
} // namespace
