// C12: WeakRingBuffer<T> (single elements, batches, front/pop_front) and WeakRingBuffer<void> (variable-size records, wrap
// with tail marker) with one producer and one consumer: exact SPSC FIFO, checked online.
#include <cds/init.h>
#include <cds/container/weak_ringbuffer.h>
#include <deque>
#include <memory>
#include "../harness/core.h"

namespace dsim { extern thread_local int t_bypass; }
using namespace vh;
namespace {
enum { O_PUSH = 0, O_POP = 1, O_PUSHN = 2, O_POPN = 3, O_FRONT = 4 };
const char* const opnames[] = {"push", "pop", "push_batch", "pop_batch", "front+pop_front", nullptr};
struct dyn_any : cds::container::weak_ringbuffer::traits { typedef cds::opt::v::uninitialized_dynamic_buffer<void*, CDS_DEFAULT_ALLOCATOR, false> buffer; };

// element type with a non-trivial destructor: the ring's value cleaner runs ~Elem() on popped cells, which must never hit a cell the
// producer has already refilled (a destroyed element reads as -77)
struct Elem { long v; Elem() : v(0) {} Elem(long x) : v(x) {} Elem(const Elem& o) : v(o.v) {} Elem& operator=(const Elem& o) { v = o.v; return *this; } ~Elem() { *(volatile long*)&v = -77; /* volatile: the compiler would drop a plain store into a dying object */ } operator long() const { return v; } };

// ---- typed ring
template <class Ring, class E = long> void run_typed(Ctx& ctx) {
    const Program& P = *ctx.prog; long cap = P.knob("capacity", 4);
    {
        Ring ring((size_t)cap); cap = (long)ring.capacity();
        long next_push = 1, next_pop = 1;             // values are sequence numbers: the k-th popped element must be k
        long pushed_done = 0, popped_done = 0;        // elements whose push / pop call has returned
        ctx.run_clients(
            [&](int) {},
            [&](int t, const Op& op) {
                int h = ctx.begin_op(t, op); long res = 0;
                if (op.kind == O_PUSH || op.kind == O_PUSHN) {   // producer role (thread 0 in the two-thread programs; the only thread plays both roles under C20)
                    long n = op.kind == O_PUSHN ? op.a : 1; if (n >= cap) n = cap - 1; if (n < 1) n = 1;
                    long free_lower_bound = cap - (pushed_done - popped_done);     // at invocation; free space only grows during the call
                    bool ok;
                    if (op.kind == O_PUSHN) { std::vector<E> arr(n); for (long i = 0; i < n; i++) arr[i] = E(next_push + i); ok = op.b ? ring.push(arr.data(), (size_t)n, [](E& d, E const& s) { new (&d) E(s); }) : ring.push(arr.data(), (size_t)n); }
                    else if (op.b == 1) { long v = next_push; ok = ring.enqueue_with([v](E& d) { new (&d) E(v); }); }
                    else if (op.b == 2) ok = ring.emplace(next_push);
                    else ok = ring.push(E(next_push));
                    if (ok) { next_push += n; res = n; }
                    else if (free_lower_bound >= n) ctx.fail("push-failed-with-space", "push of %ld element(s) failed although at least %ld of %ld cells were free throughout the call", n, free_lower_bound, cap);
                    ctx.end_op(h, res); if (ok) pushed_done += n; return;
                }
                // consumer
                long n = op.kind == O_POPN ? op.a : 1; if (n >= cap) n = cap - 1; if (n < 1) n = 1;
                long avail_lower_bound = pushed_done - popped_done; bool ok = false; std::vector<long> got;
                if (op.kind == O_POPN) { std::vector<E> tmp(n, E(-1)); ok = op.b ? ring.pop(tmp.data(), (size_t)n, [](E& d, E& s) { d = s; }) : ring.pop(tmp.data(), (size_t)n); if (ok) for (auto& e : tmp) got.push_back((long)e); }
                else if (op.kind == O_FRONT) { E* f = ring.front(); if (f) { got.push_back((long)*f); dsim::point(dsim::K_USER); ok = ring.pop_front(); if (!ok) ctx.fail("pop-front-failed", "pop_front() failed right after front() returned an element"); } }
                else if (op.b == 1) { long v = -1; ok = ring.dequeue_with([&v](E& s) { v = (long)s; }); if (ok) got.push_back(v); }
                else { E v(-1); ok = ring.pop(v); if (ok) got.push_back((long)v); }
                if (ok) { for (long v : got) { if (v != next_pop) { ctx.fail("wrong-element", "consumer received %ld where element %ld was due (lost, duplicated or reordered)", v, next_pop); break; } ++next_pop; } res = (long)got.size(); }
                else if (avail_lower_bound >= n) ctx.fail("pop-failed-with-data", "pop of %ld element(s) failed although at least %ld were present throughout the call", n, avail_lower_bound);
                ctx.end_op(h, res); if (ok) popped_done += (long)got.size();
            },
            [&](int) {});
        // quiescent drain
        E v(-1); while (ring.pop(v)) { if ((long)v != next_pop) { ctx.fail("wrong-element", "drain received %ld where element %ld was due", (long)v, next_pop); break; } ++next_pop; }
        if (next_pop != next_push) ctx.fail("element-lost", "%ld elements were pushed but only %ld could be popped", next_push - 1, next_pop - 1);
    }
}
// ---- variable-size records
inline size_t real_size(size_t s) { return ((s + 7) & ~(size_t)7) + 8; }
inline unsigned char byte_of(long seq, size_t i) { return (unsigned char)(seq * 31 + (long)i * 7 + 3); }
template <class Ring> void run_void(Ctx& ctx) {
    const Program& P = *ctx.prog; long cap = P.knob("capacity", 64);
    {
        Ring ring((size_t)cap); cap = (long)ring.capacity();
        struct Rec { long seq; size_t size; };
        std::deque<Rec> unpopped;     // records whose push returned and whose pop has not returned yet (appended / removed at returns)
        long next_seq = 1, next_pop = 1, pushed_done = 0, popped_done = 0;
        ctx.run_clients(
            [&](int) {},
            [&](int t, const Op& op) {
                int h = ctx.begin_op(t, op); long res = 0;
                if (op.kind == O_PUSH) {
                    size_t s = (size_t)op.a; if ((long)real_size(s) >= cap) s = 8;
                    size_t used_upper = 0; for (auto& r : unpopped) used_upper += 2 * real_size(r.size);
                    void* buf = ring.back(s);
                    if (buf) { unsigned char* b = (unsigned char*)buf; for (size_t i = 0; i < s; i++) b[i] = byte_of(next_seq, i); dsim::point(dsim::K_USER); ring.push_back(); res = (long)s; }
                    else if ((long)used_upper + 2 * (long)real_size(s) <= cap) ctx.fail("push-failed-with-space", "back(%zu) failed although the unpopped records can occupy at most %zu of %ld bytes", s, used_upper, cap);
                    ctx.end_op(h, res); if (buf) { if (next_seq >= next_pop) unpopped.push_back(Rec{next_seq, s}); ++next_seq; ++pushed_done; } return;
                }
                bool expect_data = pushed_done > popped_done;    // some record's push returned before this call was invoked and it is unpopped
                auto fr = ring.front();
                if (fr.first) {
                    // the next record in push order; it may be one whose push has not returned yet
                    long seq = next_pop; size_t want = 0; bool known = false;
                    for (auto& r : unpopped) if (r.seq == seq) { want = r.size; known = true; }
                    if (known && fr.second != want) ctx.fail("wrong-record-size", "record %ld has size %zu but front() reports %zu", seq, want, fr.second);
                    unsigned char* b = (unsigned char*)fr.first; bool bytes_ok = true; for (size_t i = 0; i < fr.second; i++) if (b[i] != byte_of(seq, i)) { bytes_ok = false; break; }
                    if (!bytes_ok) ctx.fail("wrong-record-bytes", "record %ld (size %zu) delivered with wrong bytes (published before it was filled, overwritten or out of order)", seq, fr.second);
                    dsim::point(dsim::K_USER);
                    if (!ring.pop_front()) ctx.fail("pop-front-failed", "pop_front() failed right after front() returned a record");
                    res = (long)fr.second; ++next_pop;
                } else if (expect_data) ctx.fail("pop-failed-with-data", "front() returned null although %ld pushed record(s) are unpopped", pushed_done - popped_done);
                ctx.end_op(h, res);
                if (fr.first) { ++popped_done; if (!unpopped.empty() && unpopped.front().seq == next_pop - 1) unpopped.pop_front(); else for (auto it = unpopped.begin(); it != unpopped.end(); ++it) if (it->seq == next_pop - 1) { unpopped.erase(it); break; } }
            },
            [&](int) {});
        for (;;) { auto fr = ring.front(); if (!fr.first) break; unsigned char* b = (unsigned char*)fr.first; for (size_t i = 0; i < fr.second; i++) if (b[i] != byte_of(next_pop, i)) { ctx.fail("wrong-record-bytes", "drain: record %ld delivered with wrong bytes", next_pop); break; } ring.pop_front(); ++next_pop; if (next_pop > next_seq + 2) break; }
        if (next_pop != next_seq) ctx.fail("element-lost", "%ld records were pushed but %ld could be popped", next_seq - 1, next_pop - 1);
    }
}
void gen_typed(Rng& r, Program& p, int, const std::string& prop) {
    long cap = r.pick({2, 3, 4, 5, 8}); p.set("capacity", cap);
    if (prop == "C20") {   // one thread, producer and consumer calls mixed
        p.threads.resize(1); int n = r.range(8, 30);
        for (int k = 0; k < n; k++) { int x = r.below(100); if (x < 30) p.add(0, O_PUSH, 0, r.below(3)); else if (x < 50 && cap > 2) p.add(0, O_PUSHN, r.range(1, (int)cap - 1), r.below(2)); else if (x < 65 && cap > 2) p.add(0, O_POPN, r.range(1, (int)cap - 1), r.below(2)); else if (x < 80) p.add(0, O_FRONT); else p.add(0, O_POP, 0, r.below(2)); }
        return;
    }
    p.threads.resize(2);
    int np = r.range(3, 9), nc = r.range(3, 9);
    for (int k = 0; k < np; k++) { if (r.chance(300) && cap > 2) p.add(0, O_PUSHN, r.range(1, (int)cap - 1), r.below(2)); else p.add(0, O_PUSH, 0, r.below(3)); }
    for (int k = 0; k < nc; k++) { int x = r.below(100); if (x < 25 && cap > 2) p.add(1, O_POPN, r.range(1, (int)cap - 1), r.below(2)); else if (x < 50) p.add(1, O_FRONT); else p.add(1, O_POP, 0, r.below(2)); }
}
void gen_void(Rng& r, Program& p, int, const std::string& prop) {
    long cap = r.pick({64, 96, 128}); p.set("capacity", cap);
    if (prop == "C20") {
        p.threads.resize(1); int n = r.range(8, 30);
        for (int k = 0; k < n; k++) { if (r.chance(550)) { long s = r.chance(300) ? r.range((int)cap / 2 - 8, (int)cap - 17) : r.range(1, (int)cap / 3); p.add(0, O_PUSH, s); } else p.add(0, O_FRONT); }
        return;
    }
    p.threads.resize(2);
    int np = r.range(3, 9), nc = r.range(3, 9);
    for (int k = 0; k < np; k++) { long s = r.chance(300) ? r.range((int)cap / 2 - 8, (int)cap - 17) : r.range(1, (int)cap / 3); p.add(0, O_PUSH, s); }
    for (int k = 0; k < nc; k++) p.add(1, O_FRONT);
}
void tune(dsim::Params& p, Rng& r, const Program&, const std::string&) { if (r.chance(400)) { p.tso_permille = r.pick({300, 700, 900}); p.tso_residency = r.pick({64, 512}); } p.soft_cap = 50000; p.hard_cap = 100000; }
#define COMP(f) "real: " f " cds/opt/buffer.h; simulated: scheduler (points on both sides of the back_/front_ operations, so the consumer can run between a publish and the data copy), x86-TSO store buffer, stalls; oracle: online exact SPSC FIFO (k-th pop delivers k-th push), layout-independent failure rules"
#define RB_SUBJECT(var, NAME, RUN, GEN, F) static const Subject var = {NAME, "C12,C20", GEN, RUN, nullptr, tune, opnames, COMP(F)}; static Registrar var##_reg(&var);
typedef cds::container::WeakRingBuffer<long> R1; typedef cds::container::WeakRingBuffer<long, dyn_any> R2;
typedef cds::container::WeakRingBuffer<void> V1; typedef cds::container::WeakRingBuffer<void, dyn_any> V2;
RB_SUBJECT(r1, "misc.WeakRingBuffer_pow2", run_typed<R1>, gen_typed, "cds/container/weak_ringbuffer.h WeakRingBuffer<T> (power-of-two buffer)")
RB_SUBJECT(r2, "misc.WeakRingBuffer_anysize", run_typed<R2>, gen_typed, "cds/container/weak_ringbuffer.h WeakRingBuffer<T> (modulo buffer)")
typedef cds::container::WeakRingBuffer<Elem> R3; typedef cds::container::WeakRingBuffer<Elem, dyn_any> R4;
static void run_r3(Ctx& c) { run_typed<R3, Elem>(c); } static void run_r4(Ctx& c) { run_typed<R4, Elem>(c); }
RB_SUBJECT(r5, "misc.WeakRingBuffer_dtor_pow2", run_r3, gen_typed, "cds/container/weak_ringbuffer.h WeakRingBuffer<T> with a non-trivially destructible T (value cleaner)")
RB_SUBJECT(r6, "misc.WeakRingBuffer_dtor_anysize", run_r4, gen_typed, "cds/container/weak_ringbuffer.h WeakRingBuffer<T> with a non-trivially destructible T, modulo buffer")
RB_SUBJECT(r3, "misc.WeakRingBuffer_void_pow2", run_void<V1>, gen_void, "cds/container/weak_ringbuffer.h WeakRingBuffer<void>")
RB_SUBJECT(r4, "misc.WeakRingBuffer_void_anysize", run_void<V2>, gen_void, "cds/container/weak_ringbuffer.h WeakRingBuffer<void> (modulo buffer)")
} // namespace
