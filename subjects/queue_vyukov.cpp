// C07: VyukovMPMCCycleQueue (container, intrusive, static/dynamic buffer, item counter) and the
// single-consumer variant with front()/pop_front(): linearizable bounded FIFO.
#include <cds/container/vyukov_mpmc_cycle_queue.h>
#include <cds/intrusive/vyukov_mpmc_cycle_queue.h>
#include "seq_common.h"

using namespace seqc;
namespace cc = cds::container; namespace ci = cds::intrusive;

namespace {
struct Base { long model_override(const Program&) { return 0; } std::function<void(Ctx&)> post_check() { return std::function<void(Ctx&)>(); } static const bool pop_empty_unconstrained = false; bool push_front(long, int) { return false; } bool pop_back(long&, int) { return false; } void probes(Ctx&) {} };

template <class Q> struct VyA : Base {
    typedef SmrNone Smr; static const SeqModel::Kind kind = SeqModel::FIFO;
    Q q; explicit VyA(const Program& p) : q((size_t)p.knob("capacity", 4)) {}
    long capacity() { return (long)q.capacity(); }
    bool push(long v, int form) { switch (form) { case 1: return q.emplace(v); case 2: return q.enqueue_with([v](long& d) { d = v; }); case 3: { long t = v; return q.push(std::move(t)); } default: return q.enqueue(v); } }
    bool pop(long& v, int form) { if (form == 1) return q.dequeue_with([&v](long& s) { v = s; }); return form == 2 ? q.pop(v) : q.dequeue(v); }
};
template <class Q> struct VyStatic : VyA<Q> { explicit VyStatic(const Program& p) : VyA<Q>(p) {} };
template <class Q> struct VySC : Base {   // single consumer: front() + pop_front()
    typedef SmrNone Smr; static const SeqModel::Kind kind = SeqModel::FIFO;
    Q q; explicit VySC(const Program& p) : q((size_t)p.knob("capacity", 4)) {}
    long capacity() { return (long)q.capacity(); }
    bool push(long v, int) { return q.enqueue(v); }
    bool pop(long& v, int form) {
        if (form == 1) return q.dequeue(v);
        long* f = q.front(); if (!f) return false; v = *f; dsim::point(dsim::K_USER); return q.pop_front();
    }
};
struct INode { long v; };
template <class Q> struct VyI : Base {
    typedef SmrNone Smr; static const SeqModel::Kind kind = SeqModel::FIFO;
    Q q; explicit VyI(const Program& p) : q((size_t)p.knob("capacity", 4)) {}
    ~VyI() { while (INode* n = q.dequeue()) delete n; }
    long capacity() { return (long)q.capacity(); }
    bool push(long v, int) { INode* n = new INode(); n->v = v; if (q.enqueue(*n)) return true; delete n; return false; }
    bool pop(long& v, int) { INode* n = q.dequeue(); if (!n) return false; v = n->v; delete n; return true; }
};
struct tr_ic : cc::vyukov_queue::traits { typedef cds::atomicity::item_counter item_counter; typedef cds::opt::v::sequential_consistent memory_model; };
struct tr_static4 : cc::vyukov_queue::traits { typedef cds::opt::v::uninitialized_static_buffer<long, 4> buffer; };
struct tr_sc : cc::vyukov_queue::traits { static constexpr bool const single_consumer = true; };

// wrap-around programs: push more than the capacity several times over
template <bool SingleConsumer> void gen(Rng& r, Program& p, int tier, const std::string&) {
    int cap = r.pick({2, 2, 4, 4, 8}); p.set("capacity", cap);
    int nth = r.range(2, tier ? 4 : 3); p.threads.resize(nth);
    p.set("prefill", r.below(cap + 1)); p.set("eager", 0);
    int total = 0, maxops = cap <= 2 ? 16 : 20;
    for (int t = 0; t < nth; t++) {
        int nops = r.range(2, 7); int bias = r.pick({500, 500, 300, 750});
        if (SingleConsumer) bias = t == 0 ? 150 : 1000;
        for (int k = 0; k < nops && total < maxops; k++, total++) {
            bool push = r.chance(bias);
            p.add(t, push ? PUSH : POP, push ? (t + 1) * 100 + k : 0, r.below(push ? 4 : (SingleConsumer ? 2 : 3)));
        }
    }
}
#define COMPV(f) "real: " f " cds/opt/buffer.h; simulated: scheduler, weak-CAS failures, stalls; oracle: linearizability vs bounded FIFO of capacity() (enqueue fails only when full, dequeue only when empty)"
typedef VyA<cc::VyukovMPMCCycleQueue<long>> A1; SEQ_SUBJECT(v1, "queue.Vyukov_dyn", "C07", A1, gen<false>, COMPV("cds/container/vyukov_mpmc_cycle_queue.h"))
typedef VyA<cc::VyukovMPMCCycleQueue<long, tr_ic>> A2; SEQ_SUBJECT(v2, "queue.Vyukov_dyn_ic_seqcst", "C07", A2, gen<false>, COMPV("cds/container/vyukov_mpmc_cycle_queue.h (item counter, seq_cst)"))
typedef VyA<cc::VyukovMPMCCycleQueue<long, tr_static4>> A3; SEQ_SUBJECT(v3, "queue.Vyukov_static4", "C07", A3, gen<false>, COMPV("cds/container/vyukov_mpmc_cycle_queue.h (static buffer)"))
typedef VySC<cc::VyukovMPMCCycleQueue<long, tr_sc>> A4; SEQ_SUBJECT(v4, "queue.Vyukov_single_consumer", "C07", A4, gen<true>, COMPV("cds/container/vyukov_mpmc_cycle_queue.h (front/pop_front)"))
typedef VyI<ci::VyukovMPMCCycleQueue<INode>> A5; SEQ_SUBJECT(v5, "queue.iVyukov", "C07", A5, gen<false>, COMPV("cds/intrusive/vyukov_mpmc_cycle_queue.h"))
} // namespace
