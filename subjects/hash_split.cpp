// C14 (part): SplitListSet / SplitListMap over each list kind, static and dynamic bucket tables, growth during the run.
#include <cds/container/michael_list_hp.h>
#include <cds/container/michael_list_dhp.h>
#include <cds/container/michael_list_rcu.h>
#include <cds/container/lazy_list_hp.h>
#include <cds/container/lazy_list_rcu.h>
#include <cds/container/iterable_list_hp.h>
#include <cds/container/iterable_list_dhp.h>
#include <cds/container/michael_kvlist_hp.h>
#include <cds/container/lazy_kvlist_hp.h>
#include <cds/container/michael_kvlist_rcu.h>
#include <cds/container/split_list_set.h>
#include <cds/container/split_list_set_rcu.h>
#include <cds/container/split_list_map.h>
#include <cds/container/split_list_map_rcu.h>
#include "setmap_common.h"

using namespace smc;
namespace cc = cds::container;
namespace {
typedef cds::gc::HP HP; typedef cds::gc::DHP DHP;
template <class Tag, bool Dyn> struct sl_traits : cc::split_list::traits {
    typedef Hash hash; typedef Tag ordered_list; static const bool dynamic_bucket_table = Dyn; typedef cds::atomicity::item_counter item_counter; typedef cc::split_list::stat<> stat;
    struct ordered_list_traits : cc::michael_list::traits { typedef Less less; };
};
template <bool Dyn> struct sl_traits_lazy : cc::split_list::traits {
    typedef Hash hash; typedef cc::lazy_list_tag ordered_list; static const bool dynamic_bucket_table = Dyn; typedef cds::atomicity::item_counter item_counter; typedef cc::split_list::stat<> stat;
    struct ordered_list_traits : cc::lazy_list::traits { typedef Cmp compare; };
};
template <bool Dyn> struct sl_traits_iter : cc::split_list::traits {
    typedef Hash hash; typedef cc::iterable_list_tag ordered_list; static const bool dynamic_bucket_table = Dyn; typedef cds::atomicity::item_counter item_counter; typedef cc::split_list::stat<> stat;
    struct ordered_list_traits : cc::iterable_list::traits { typedef Less less; };
};
template <class S> void split_probes(Ctx& c, S& s) { auto const& st = s.statistics(); c.probe("split_bucket_inits", (long)st.m_nInitBucketRecursive.get() + (long)st.m_nInitBucketContention.get()); c.probe("split_buckets_created", (long)st.m_nBucketCount.get()); c.probe("split_bucket_init_contention", (long)st.m_nInitBucketContention.get()); }
template <class GC, class S, class CFG> struct HSet : SetA<GC, S, CFG> { explicit HSet(const Program& p) { this->s.reset(new S((size_t)p.knob("item_count", 2), (size_t)p.knob("load_factor", 1))); } bool consistent(std::string& why) { std::vector<long> ks; this->traverse(ks); return split_order_ok(ks, why); } void probes(Ctx& c) { split_probes(c, *this->s); } };
template <class GC, class S, class CFG> struct HMap : MapA<GC, S, CFG> { explicit HMap(const Program& p) { this->s.reset(new S((size_t)p.knob("item_count", 2), (size_t)p.knob("load_factor", 1))); } bool consistent(std::string& why) { std::vector<long> ks; this->traverse(ks); return split_order_ok(ks, why); } void probes(Ctx& c) { split_probes(c, *this->s); } };
typedef Cfg<CAPS_FULL, false, false> C_full; typedef Cfg<CAPS_FULL, true, false> C_repl; typedef Cfg<CAPS_FULL, false, false, true, true, true> C_lazy_rcu;
// more keys and insert-heavy programs so that bucket initialisation and table growth happen during the concurrent phase
void gen(Rng& r, Program& p, int tier, const std::string&) { GenCfg g; g.min_hazards = 12; g.hash_modes = 4; g.nkeys_hot = 5; g.nkeys_cold = 3; g.max_ops = 6; gen_program(r, p, tier, g); p.set("item_count", r.pick({2, 2, 4})); p.set("load_factor", 1); }  // a bucket table smaller than 2 is outside the contract (the list starts with 2 logical buckets; asserted in debug builds)
#define COMPS(f) "real: " f " cds/intrusive/split_list.h details/split_list_base.h (bucket table, init_bucket recursion, split-order keys), ordered list, SMR; simulated: scheduler + faults, degenerate hashes, load factor 1 and 1-2 initial buckets so growth happens mid-run; oracle: linearizability vs key->instance map, quiescent traversal, size()"
#define HS(var, NAME, GC, T, CFG, F) typedef HSet<GC, T, CFG> T_##var; SM_SUBJECT(var, NAME, "C14,C17,C20", T_##var, gen, COMPS(F))
#define HM(var, NAME, GC, T, CFG, F) typedef HMap<GC, T, CFG> T_##var; SM_SUBJECT(var, NAME, "C14,C17,C20", T_##var, gen, COMPS(F))
typedef cc::SplitListSet<HP, Item, sl_traits<cc::michael_list_tag, true>> S1; HS(s1, "hash.SplitListSet_Michael_HP_dyn", HP, S1, C_full, "cds/container/split_list_set.h")
typedef cc::SplitListSet<DHP, Item, sl_traits<cc::michael_list_tag, false>> S2; HS(s2, "hash.SplitListSet_Michael_DHP_static", DHP, S2, C_full, "cds/container/split_list_set.h")
typedef cc::SplitListSet<RCU_GPB, Item, sl_traits<cc::michael_list_tag, true>> S3; HS(s3, "hash.SplitListSet_Michael_RCU_gpb", RCU_GPB, S3, C_full, "cds/container/split_list_set_rcu.h cds/intrusive/split_list_rcu.h")
typedef cc::SplitListSet<HP, Item, sl_traits_lazy<true>> S4; HS(s4, "hash.SplitListSet_Lazy_HP_dyn", HP, S4, C_full, "cds/container/split_list_set.h")
typedef cc::SplitListSet<RCU_GPI, Item, sl_traits_lazy<false>> S5; HS(s5, "hash.SplitListSet_Lazy_RCU_gpi_static", RCU_GPI, S5, C_lazy_rcu, "cds/container/split_list_set_rcu.h")
typedef cc::SplitListSet<HP, Item, sl_traits_iter<true>> S6; HS(s6, "hash.SplitListSet_Iterable_HP", HP, S6, C_repl, "cds/container/split_list_set.h")
typedef cc::SplitListSet<DHP, Item, sl_traits_iter<false>> S7; HS(s7, "hash.SplitListSet_Iterable_DHP_static", DHP, S7, C_repl, "cds/container/split_list_set.h")
typedef cc::SplitListMap<HP, long, long, sl_traits<cc::michael_list_tag, true>> M1; HM(m1, "hash.SplitListMap_Michael_HP", HP, M1, C_full, "cds/container/split_list_map.h")
typedef cc::SplitListMap<RCU_SHB, long, long, sl_traits<cc::michael_list_tag, true>> M2; HM(m2, "hash.SplitListMap_Michael_RCU_shb", RCU_SHB, M2, C_full, "cds/container/split_list_map_rcu.h")
typedef cc::SplitListMap<DHP, long, long, sl_traits_lazy<true>> M3; HM(m3, "hash.SplitListMap_Lazy_DHP", DHP, M3, C_full, "cds/container/split_list_map.h")
typedef cc::SplitListMap<HP, long, long, sl_traits_iter<true>> M4; HM(m4, "hash.SplitListMap_Iterable_HP", HP, M4, C_repl, "cds/container/split_list_map.h")
} // namespace
