// C16 / C17 (part): CuckooSet / CuckooMap — striping and refinable mutex policies, list and vector probe sets,
// stored hashes or not, minimal initial size and probe-set thresholds so that relocation and resize interleave with every op.
#include <cds/container/cuckoo_set.h>
#include <cds/container/cuckoo_map.h>
#include "setmap_common.h"

using namespace smc;
namespace cc = cds::container;
namespace {
template <class Policy, class Probe, bool Store> struct ck_traits : cc::cuckoo::traits {
    typedef cds::opt::hash_tuple<Hash, Hash2> hash; typedef Equal equal_to; typedef Less less; typedef Policy mutex_policy; typedef Probe probeset_type;
    static bool const store_hash = Store; typedef cc::cuckoo::stat stat;
};
template <class S> void ck_probes(Ctx& c, S& s) { auto const& st = s.statistics(); c.probe("cuckoo_relocate_calls", (long)st.m_nRelocateCallCount.get()); c.probe("cuckoo_resize_calls", (long)st.m_nResizeCallCount.get()); c.probe("cuckoo_relocate_rounds", (long)st.m_nRelocateRoundCount.get()); c.probe("cuckoo_insert_resize", (long)st.m_nInsertResizeCount.get()); }
typedef Cfg<CAPS_BASIC, false, false, false> C_lock;
template <class S> struct CkSet : SetA<cds::gc::nogc, S, C_lock> { static const bool exclusive_functors = true;
    explicit CkSet(const Program& p) { this->s.reset(new S((size_t)p.knob("initial_size", 2), (unsigned)p.knob("probeset", 2), (unsigned)p.knob("threshold", 0))); }
    void probes(Ctx& c) { ck_probes(c, *this->s); }
};
template <class M> struct CkMap : MapA<cds::gc::nogc, M, C_lock> { static const bool exclusive_functors = true;
    explicit CkMap(const Program& p) { this->s.reset(new M((size_t)p.knob("initial_size", 2), (unsigned)p.knob("probeset", 2), (unsigned)p.knob("threshold", 0))); }
    void probes(Ctx& c) { ck_probes(c, *this->s); }
};
template <int VecCap> void gen(Rng& r, Program& p, int tier, const std::string& prop) {
    GenCfg g; g.caps = CAPS_BASIC; g.nkeys_hot = 5; g.nkeys_cold = 3; g.max_ops = 6; g.hash_modes = 4; g.max_threads_quick = (prop == "C17") ? 3 : 3;
    gen_program(r, p, tier, g);
    int ps = VecCap ? VecCap : r.range(2, 4);   // probe-set size 1 would force threshold 0 (relocate from an empty probe set): outside the usable configuration space
    p.set("probeset", ps); p.set("threshold", r.pick({0, 1, ps - 1})); p.set("initial_size", r.pick({1, 2, 2, 4}));
    // a degenerate hash must not be asked for more keys than fit (documented algorithm loops resize(); retry otherwise): cap the key universe
    long mode = p.knob("hash_mode"); long keys = p.knob("keys");
    if (mode == 1 && keys > 2 * ps) { p.set("keys", 2 * ps); p.set("prefill_mask", p.knob("prefill_mask") & ((1 << (2 * ps)) - 1)); for (auto& t : p.threads) for (auto& o : t.ops) o.a = 1 + (o.a - 1) % (2 * ps); }
}
typedef cc::cuckoo::striping<> striping; typedef cc::cuckoo::refinable<> refinable;
#define COMPC(f) "real: " f " cds/intrusive/cuckoo_set.h (probe sets, relocation, resize, striping/refinable lock arrays) cds/sync/lock_array.h; simulated: scheduler, std::recursive_mutex / spin locks, stalls; knobs: probe-set size 1-4, threshold, initial size 1-4, degenerate hash tuples; oracle: linearizability vs key->instance map, quiescent find of every key, size()"
#define CS(var, NAME, T, G, F) typedef T T_##var; SM_SUBJECT(var, NAME, "C16,C17,C20", T_##var, G, COMPC(F))
typedef CkSet<cc::CuckooSet<Item, ck_traits<striping, cc::cuckoo::list, false>>> K1; CS(k1, "lockset.CuckooSet_striping_list", K1, gen<0>, "cds/container/cuckoo_set.h")
typedef CkSet<cc::CuckooSet<Item, ck_traits<refinable, cc::cuckoo::list, true>>> K2; CS(k2, "lockset.CuckooSet_refinable_list_storehash", K2, gen<0>, "cds/container/cuckoo_set.h")
typedef CkSet<cc::CuckooSet<Item, ck_traits<striping, cc::cuckoo::vector<2>, true>>> K3; CS(k3, "lockset.CuckooSet_striping_vector2_storehash", K3, gen<2>, "cds/container/cuckoo_set.h")
typedef CkSet<cc::CuckooSet<Item, ck_traits<refinable, cc::cuckoo::vector<4>, false>>> K4; CS(k4, "lockset.CuckooSet_refinable_vector4", K4, gen<4>, "cds/container/cuckoo_set.h")
typedef CkMap<cc::CuckooMap<long, long, ck_traits<striping, cc::cuckoo::list, false>>> K5; CS(k5, "lockset.CuckooMap_striping_list", K5, gen<0>, "cds/container/cuckoo_map.h")
typedef CkMap<cc::CuckooMap<long, long, ck_traits<refinable, cc::cuckoo::vector<2>, true>>> K6; CS(k6, "lockset.CuckooMap_refinable_vector2_storehash", K6, gen<2>, "cds/container/cuckoo_map.h")
} // namespace
