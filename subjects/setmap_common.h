// Common harness for sets and maps (C13-C18, C20): abstract operations, functors that only record which element
// instance they were shown, SMR policies (HP, DHP, four RCU flavours, nogc, lock-based), program generation,
// execution, quiescent observation + structural checks, linearizability check against the key->instance map model.
#pragma once
#include <cds/init.h>
#include <cds/gc/hp.h>
#include <cds/gc/dhp.h>
#include <cds/gc/nogc.h>
#include <cds/urcu/general_instant.h>
#include <cds/urcu/general_buffered.h>
#include <cds/urcu/general_threaded.h>
#include <cds/urcu/signal_buffered.h>
#include <cds/threading/model.h>
#include <algorithm>
#include <memory>
#include <set>
#include "../harness/core.h"
#include "../harness/lin.h"

namespace dsim { extern thread_local int t_bypass; }

namespace smc {
using namespace vh;

enum { INSERT = 0, ERASE = 1, CONTAINS = 2, FIND = 3, UPDATE = 4, UPSERT_NOINS = 5, EXTRACT = 6, GET = 7, EXTRACT_MIN = 8, EXTRACT_MAX = 9, NKIND = 10, CLEAR = 10 /* only generated for the single-threaded C20 programs: clear() is not atomic */ };
static const char* const opnames[] = {"insert", "erase", "contains", "find", "update", "update_noinsert", "extract", "get", "extract_min", "extract_max", "clear", nullptr};
#define CAP(k) (1u << (k))
static const unsigned CAPS_BASIC = CAP(INSERT) | CAP(ERASE) | CAP(CONTAINS) | CAP(FIND) | CAP(UPDATE) | CAP(UPSERT_NOINS);
static const unsigned CAPS_FULL = CAPS_BASIC | CAP(EXTRACT) | CAP(GET);
static const unsigned CAPS_NOGC = CAP(INSERT) | CAP(CONTAINS) | CAP(FIND) | CAP(UPDATE) | CAP(UPSERT_NOINS);

// ---- hashing knobs (stateless functor types read a per-run global set from the program's knobs)
extern int g_hash_mode;   // (defined once in harness/core.cpp) 0 identity, 1 constant, 2 one bit, 3 multiplicative, 4 shared-prefix (Feldman)
inline size_t mkhash(long k) {
    switch (g_hash_mode) { case 1: return 7; case 2: return (size_t)(k & 1); case 3: return (size_t)k * 2654435761u; case 4: return (size_t)k * 0x0101010101010101ULL; default: return (size_t)k; }
}
inline size_t mkhash2(long k) { switch (g_hash_mode) { case 1: return 3; case 2: return (size_t)((k >> 1) & 1); default: return (size_t)(k * 7 + 1) * 40503u; } }

struct Item {
    long key; long inst; size_t hash;
    Item() : key(0), inst(-1), hash(0) {}
    Item(long k, long i) : key(k), inst(i), hash(mkhash(k)) {}
    explicit Item(long k) : key(k), inst(-1), hash(mkhash(k)) {}
};
inline long key_of(Item const& i) { return i.key; }
inline long key_of(long k) { return k; }
inline long inst_of(Item const& i) { return i.inst; }
template <class K, class V> long inst_of(std::pair<K, V> const& p) { return (long)p.second; }
template <class K, class V> long key_of(std::pair<K, V> const& p) { return (long)p.first; }
inline long inst_of(long v) { return v; }
struct Less { template <class A, class B> bool operator()(A const& a, B const& b) const { return key_of(a) < key_of(b); } };
struct Cmp { template <class A, class B> int operator()(A const& a, B const& b) const { long x = key_of(a), y = key_of(b); return x < y ? -1 : x > y ? 1 : 0; } };
struct Equal { template <class A, class B> bool operator()(A const& a, B const& b) const { return key_of(a) == key_of(b); } };
struct Hash { template <class A> size_t operator()(A const& a) const { return mkhash(key_of(a)); } };
struct Hash2 { template <class A> size_t operator()(A const& a) const { return mkhash2(key_of(a)); } };

// ---- result of one abstract operation and the recording functors
struct R { bool ok = false; long inst = -1; bool inserted = false; long key = 0; int calls = 0; bool poisoned = false, overlap = false; bool drop = false; /* the result puts no constraint on the model: leave the op out of the checked history */ };
// Functors run inside the container's protection (bucket lock, node monitor, guard, RCU section). A schedule point inside them lets the
// scheduler park the caller there; if the protection is broken another thread can remove and free the element meanwhile, and the
// functor then reads freed (0xDD-poisoned) memory.
static const long POISON_INST = (long)0xDDDDDDDDDDDDDDDDULL;
// Lock-based containers (striped, cuckoo) call every functor under the bucket lock(s) of the element: two functors running on the same
// key at the same time mean that two threads are inside one bucket, i.e. the container's locking is broken even if no result shows it.
extern bool g_exclusive_functors; extern int g_functor_occupancy[64];   // (defined in harness/core.cpp; set per run by the lock-based adapters)
template <class V> inline long observe(R* r, V& item, bool linked = true) {   // linked = false: erase functors see an element that is already unlinked and may run after the locks are dropped
    long a = inst_of(item); int slot = (int)(key_of(item) & 63); bool excl = g_exclusive_functors && linked;
    if (excl && ++g_functor_occupancy[slot] != 1) r->overlap = true;
    dsim::point(dsim::K_USER);
    if (excl) --g_functor_occupancy[slot];
    long b = inst_of(item); if (a == POISON_INST || b == POISON_INST) r->poisoned = true; return b;
}
struct InsF { R* r; template <class V> void operator()(V& item) const { ++r->calls; r->inst = observe(r, item); } };
struct UpdF {
    R* r;
    template <class V, class Q> void operator()(bool bNew, V& item, Q const&) const { ++r->calls; r->inserted = bNew; r->inst = observe(r, item); }
    template <class V> void operator()(bool bNew, V& item) const { ++r->calls; r->inserted = bNew; r->inst = observe(r, item); }
    template <class V> void operator()(V& cur, V* old) const { ++r->calls; r->inserted = (old == nullptr); r->inst = old ? observe(r, *old) : observe(r, cur); }
    template <class V> void operator()(V& cur, std::nullptr_t) const { ++r->calls; r->inserted = true; r->inst = observe(r, cur); }
};
struct FindF {
    R* r;
    template <class V, class Q> void operator()(V& item, Q&) const { ++r->calls; r->inst = observe(r, item); }
    template <class V> void operator()(V& item) const { ++r->calls; r->inst = observe(r, item); }
};
struct EraseF { R* r; template <class V> void operator()(V const& item) const { ++r->calls; r->inst = observe(r, item, false); } };

// ---- SMR policies
struct SmrHP {
    std::unique_ptr<cds::gc::HP> gc;
    explicit SmrHP(const Program& p) { gc.reset(new cds::gc::HP((size_t)p.knob("hp_H", 16), (size_t)p.knob("hp_T", 8), (size_t)p.knob("hp_R", 0), p.knob("hp_classic") ? cds::gc::HP::scan_type::classic : cds::gc::HP::scan_type::inplace)); }
    static void eager() { vh::EagerPass ep; cds::gc::HP::force_dispose(); }
    static void detach() { vh::EagerPass ep; cds::threading::Manager::detachThread(); }   // detaching scans too
};
struct SmrDHP { std::unique_ptr<cds::gc::DHP> gc; explicit SmrDHP(const Program& p) { gc.reset(new cds::gc::DHP((size_t)p.knob("dhp_init", 16))); } static void eager() { vh::EagerPass ep; cds::gc::DHP::force_dispose(); } static void detach() { vh::EagerPass ep; cds::threading::Manager::detachThread(); } };
struct SmrNone { explicit SmrNone(const Program&) {} static void eager() {} static void detach() { cds::threading::Manager::detachThread(); } };
template <class RCU> struct SmrRCU {
    typedef cds::urcu::gc<RCU> gc_type; std::unique_ptr<gc_type> gc;
    template <class G> static G* mk(const Program& p, decltype(new G((size_t)1))* = nullptr) { return new G((size_t)p.knob("rcu_capacity", 8)); }
    template <class G> static G* mk(const Program&, ...) { return new G(); }
    explicit SmrRCU(const Program& p) { gc.reset(mk<gc_type>(p, nullptr)); }
    static void eager() { gc_type::synchronize(); }
    static void detach() { cds::threading::Manager::detachThread(); }
};
template <class GC> struct SmrOf { typedef SmrNone type; };
template <> struct SmrOf<cds::gc::HP> { typedef SmrHP type; };
template <> struct SmrOf<cds::gc::DHP> { typedef SmrDHP type; };
template <class RCU> struct SmrOf<cds::urcu::gc<RCU>> { typedef SmrRCU<RCU> type; };
typedef cds::urcu::gc<cds::urcu::general_instant<>> RCU_GPI;
typedef cds::urcu::gc<cds::urcu::general_buffered<>> RCU_GPB;
typedef cds::urcu::gc<cds::urcu::general_threaded<>> RCU_GPT;
typedef cds::urcu::gc<cds::urcu::signal_buffered<>> RCU_SHB;

// extract / get under the different schemes
template <class GC> struct Access {     // HP / DHP: guarded_ptr
    template <class S> static R extract(S& s, long key, bool = false) { R r; auto gp = s.extract(key); if (gp) { r.ok = true; r.inst = inst_of(*gp); r.key = key_of(*gp); } return r; }
    template <class S> static R get(S& s, long key) { R r; auto gp = s.get(key); if (gp) { r.ok = true; dsim::point(dsim::K_USER); r.inst = inst_of(*gp); r.key = key_of(*gp); } return r; }
    template <class S> static R extract_min(S& s) { R r; auto gp = s.extract_min(); if (gp) { r.ok = true; r.inst = inst_of(*gp); r.key = key_of(*gp); } return r; }
    template <class S> static R extract_max(S& s) { R r; auto gp = s.extract_max(); if (gp) { r.ok = true; r.inst = inst_of(*gp); r.key = key_of(*gp); } return r; }
};
template <class RCU> struct Access<cds::urcu::gc<RCU>> {   // RCU: exempt_ptr outside the lock, raw pointer inside it
    // documented protocol: LazyList-based RCU containers require the caller to hold the RCU lock around extract(); all others forbid it
    template <class S> static R extract(S& s, long key, bool locked = false) {
        R r; typename S::exempt_ptr xp;
        if (locked) { typename S::rcu_lock l; xp = s.extract(key); } else xp = s.extract(key);
        if (xp) { r.ok = true; r.inst = inst_of(*xp); r.key = key_of(*xp); } xp.release(); return r;
    }
    // get(): called and dereferenced under the RCU lock; a raw_ptr result is released outside the lock (it may carry a chain of
    // unlinked nodes whose disposal can synchronise), a plain pointer result needs no release
    template <class P> static void release_outside(P*&) {}
    template <class P> static auto release_outside(P& p) -> decltype((void)p.release()) { p.release(); }
    template <class S> static R get(S& s, long key) {
        R r; decltype(s.get(key)) p = decltype(s.get(key))();
        { typename S::rcu_lock l; p = s.get(key); if (p) { r.ok = true; dsim::point(dsim::K_USER); r.inst = inst_of(*p); r.key = key_of(*p); } }
        release_outside(p); return r;
    }
    template <class S> static R extract_min(S& s) { R r; auto xp = s.extract_min(); if (xp) { r.ok = true; r.inst = inst_of(*xp); r.key = key_of(*xp); } xp.release(); return r; }
    template <class S> static R extract_max(S& s) { R r; auto xp = s.extract_max(); if (xp) { r.ok = true; r.inst = inst_of(*xp); r.key = key_of(*xp); } xp.release(); return r; }
};

// ---- the *_with( key, less ) overloads (C20: "every sequence of API calls"): used instead of the plain ones in a third of the runs,
// where the container offers them (SFINAE) and orders its elements by 'less' (not the lock-based hash sets, whose predicate is an equality)
extern bool g_with_pred;   // per run (knob with_pred); defined in harness/core.cpp
template <class S> auto contains_w(S& s, long k, int) -> decltype((bool)s.contains(k, Less())) { return s.contains(k, Less()); }
template <class S> bool contains_w(S& s, long k, long) { return s.contains(k); }
template <class S, class F> auto find_w(S& s, long& k, F f, int) -> decltype((bool)s.find_with(k, Less(), f)) { return s.find_with(k, Less(), f); }
template <class S, class F> bool find_w(S& s, long& k, F f, long) { return s.find(k, f); }
template <class S> auto erase_w(S& s, long k, int) -> decltype((bool)s.erase_with(k, Less())) { return s.erase_with(k, Less()); }
template <class S> bool erase_w(S& s, long k, long) { return s.erase(k); }
template <class S, class F> auto erase_wf(S& s, long k, F f, int) -> decltype((bool)s.erase_with(k, Less(), f)) { return s.erase_with(k, Less(), f); }
template <class S, class F> bool erase_wf(S& s, long k, F f, long) { return s.erase(k, f); }
template <class GC> inline bool use_with() { return g_with_pred && !std::is_same<GC, cds::gc::nogc>::value; }

// ---- generic adapter over the "set" API (value_type = Item)
template <unsigned Caps, bool UpdateReplaces = false, bool Ordered = true, bool HasIter = true, bool HasSize = true, bool RcuExtractLocked = false>
struct Cfg { static const unsigned caps = Caps; static const bool update_replaces = UpdateReplaces, ordered = Ordered, has_iter = HasIter, has_size = HasSize, rcu_extract_locked = RcuExtractLocked; };

template <class C> auto iter_all(C& c, std::vector<long>& out, int) -> decltype((void)c.begin()) { for (auto it = c.begin(); it != c.end(); ++it) out.push_back(key_of(*it)); }
template <class C> void iter_all(C&, std::vector<long>&, long) {}

template <class GC, class S, class CFG>
struct SetA {
    typedef typename SmrOf<GC>::type Smr; typedef GC gc; typedef S container;
    static const unsigned caps = CFG::caps; static const bool update_replaces = CFG::update_replaces; static const bool ordered = CFG::ordered;
    std::unique_ptr<S> s;
    SetA() {}
    explicit SetA(const Program&) : s(new S()) {}
    R insert(long key, long inst, int form) {
        R r; Item it(key, inst);
        if (form == 1) { r.ok = s->insert(it, InsF{&r}); if ((r.ok && r.calls != 1) || (!r.ok && r.calls)) r.calls = -100; r.inst = -1; }
        else if (form == 2) r.ok = s->emplace(key, inst);
        else r.ok = s->insert(it);
        return r;
    }
    typedef std::true_type yes; typedef std::false_type no;
    template <int K> struct has : std::integral_constant<bool, ((CFG::caps >> K) & 1) != 0> {};
    R erase(long key, int form) { return erase_(key, form, has<ERASE>()); }
    R erase_(long key, int form, yes) { R r; bool w = use_with<GC>(); if (form == 1) { r.ok = w ? erase_wf(*s, key, EraseF{&r}, 0) : s->erase(key, EraseF{&r}); if ((r.ok && r.calls != 1) || (!r.ok && r.calls)) r.calls = -100; } else r.ok = w ? erase_w(*s, key, 0) : s->erase(key); return r; }
    R erase_(long, int, no) { return R(); }
    R extract_(long key, yes) { return Access<GC>::extract(*s, key, CFG::rcu_extract_locked); }
    R extract_(long, no) { return R(); }
    R get_(long key, yes) { return Access<GC>::get(*s, key); }
    R get_(long, no) { return R(); }
    R contains(long key) { R r; r.ok = use_with<GC>() ? contains_w(*s, key, 0) : s->contains(key); return r; }
    R find(long key) { R r; long k = key; r.ok = use_with<GC>() ? find_w(*s, k, FindF{&r}, 0) : s->find(k, FindF{&r}); if ((r.ok && r.calls != 1) || (!r.ok && r.calls)) r.calls = -100; return r; }
    R update(long key, long inst, bool allow) { R r; Item it(key, inst); std::pair<bool, bool> p = s->update(it, UpdF{&r}, allow); r.ok = p.first; r.inserted = p.second; if ((r.ok && r.calls > 1) || (!r.ok && r.calls)) r.calls = -100; return r; }
    R extract(long key) { return extract_(key, has<EXTRACT>()); }
    R get(long key) { return get_(key, has<GET>()); }
    R extract_min() { return R(); }
    R extract_max() { return R(); }
    bool traverse(std::vector<long>& out) { if (!CFG::has_iter) return false; iter_all(*s, out, 0); return true; }
    long size() { return CFG::has_size ? (long)s->size() : -1; }
    bool empty() { return s->empty(); }
    bool consistent(std::string&) { return true; }
    void probes(Ctx&) {}
};

// ---- generic adapter over the key-value "map" API (key = long, mapped = long instance id)
template <class GC, class M, class CFG>
struct MapA {
    typedef typename SmrOf<GC>::type Smr; typedef GC gc; typedef M container;
    static const unsigned caps = CFG::caps; static const bool update_replaces = CFG::update_replaces; static const bool ordered = CFG::ordered;
    std::unique_ptr<M> s;
    MapA() {}
    explicit MapA(const Program&) : s(new M()) {}
    R insert(long key, long inst, int form) {
        R r;
        if (form == 1) { r.ok = s->insert_with(key, [&r, inst](typename M::value_type& item) { ++r.calls; item.second = inst; }); if ((r.ok && r.calls != 1) || (!r.ok && r.calls)) r.calls = -100; }
        else if (form == 2) r.ok = s->emplace(key, inst);
        else r.ok = s->insert(key, inst);
        return r;
    }
    typedef std::true_type yes; typedef std::false_type no;
    template <int K> struct has : std::integral_constant<bool, ((CFG::caps >> K) & 1) != 0> {};
    R erase(long key, int form) { return erase_(key, form, has<ERASE>()); }
    R erase_(long key, int form, yes) { R r; bool w = use_with<GC>(); if (form == 1) { r.ok = w ? erase_wf(*s, key, EraseF{&r}, 0) : s->erase(key, EraseF{&r}); if ((r.ok && r.calls != 1) || (!r.ok && r.calls)) r.calls = -100; } else r.ok = w ? erase_w(*s, key, 0) : s->erase(key); return r; }
    R erase_(long, int, no) { return R(); }
    R extract_(long key, yes) { return Access<GC>::extract(*s, key, CFG::rcu_extract_locked); }
    R extract_(long, no) { return R(); }
    R get_(long key, yes) { return Access<GC>::get(*s, key); }
    R get_(long, no) { return R(); }
    R contains(long key) { R r; r.ok = use_with<GC>() ? contains_w(*s, key, 0) : s->contains(key); return r; }
    R find(long key) { R r; long k = key; r.ok = use_with<GC>() ? find_w(*s, k, FindF{&r}, 0) : s->find(key, FindF{&r}); if ((r.ok && r.calls != 1) || (!r.ok && r.calls)) r.calls = -100; return r; }
    // maps create the mapped value inside the functor: a new element gets 'inst', an existing one is only observed
    struct MapUpd {
        R* r; long inst;
        template <class V> void operator()(bool bNew, V& item) const { ++r->calls; r->inserted = bNew; if (bNew) item.second = inst; r->inst = observe(r, item); }
        template <class V> void operator()(V& cur, V* old) const { ++r->calls; r->inserted = (old == nullptr); cur.second = inst; r->inst = old ? inst_of(*old) : inst; }
        template <class V> void operator()(V& cur, std::nullptr_t) const { ++r->calls; r->inserted = true; cur.second = inst; r->inst = inst; }
    };
    R update(long key, long inst, bool allow) { R r; std::pair<bool, bool> p = s->update(key, MapUpd{&r, inst}, allow); r.ok = p.first; r.inserted = p.second; if ((r.ok && r.calls > 1) || (!r.ok && r.calls)) r.calls = -100; return r; }
    R extract(long key) { return extract_(key, has<EXTRACT>()); }
    R get(long key) { return get_(key, has<GET>()); }
    R extract_min() { return R(); }
    R extract_max() { return R(); }
    bool traverse(std::vector<long>& out) { if (!CFG::has_iter) return false; iter_all(*s, out, 0); return true; }
    long size() { return CFG::has_size ? (long)s->size() : -1; }
    bool empty() { return s->empty(); }
    bool consistent(std::string&) { return true; }
    void probes(Ctx&) {}
};

// ---- insert-only nogc containers: every modifier returns an iterator (end() = failed), there is no erase
template <class S, class CFG>
struct NogcSetA {
    typedef SmrNone Smr; typedef cds::gc::nogc gc; typedef S container;
    static const unsigned caps = CAPS_NOGC; static const bool update_replaces = false; static const bool ordered = CFG::ordered;
    std::unique_ptr<S> s;
    NogcSetA() {}
    explicit NogcSetA(const Program&) : s(new S()) {}
    R insert(long key, long inst, int form) { R r; Item it(key, inst); auto i = form == 2 ? s->emplace(key, inst) : s->insert(it); r.ok = i != s->end(); if (r.ok && (key_of(*i) != key || inst_of(*i) != inst)) r.calls = -100; return r; }
    R erase(long, int) { return R(); }
    R contains(long key) { R r; auto i = s->contains(key); r.ok = i != s->end(); return r; }
    R find(long key) { R r; auto i = s->contains(key); r.ok = i != s->end(); if (r.ok) { r.inst = inst_of(*i); if (key_of(*i) != key) r.calls = -100; } return r; }
    R update(long key, long inst, bool allow) { R r; Item it(key, inst); auto p = s->update(it, allow); r.ok = p.first != s->end(); r.inserted = p.second; if (r.ok) { r.inst = inst_of(*p.first); if (key_of(*p.first) != key) r.calls = -100; } else if (p.second) r.calls = -100; return r; }
    R extract(long) { return R(); } R get(long) { return R(); } R extract_min() { return R(); } R extract_max() { return R(); }
    bool traverse(std::vector<long>& out) { if (!CFG::has_iter) return false; iter_all(*s, out, 0); return true; }
    long size() { return CFG::has_size ? (long)s->size() : -1; }
    bool empty() { return s->empty(); }
    bool consistent(std::string&) { return true; }
    void probes(Ctx&) {}
};
template <class M, class CFG>
struct NogcMapA {
    typedef SmrNone Smr; typedef cds::gc::nogc gc; typedef M container;
    static const unsigned caps = CAPS_NOGC; static const bool update_replaces = false; static const bool ordered = CFG::ordered;
    std::unique_ptr<M> s;
    NogcMapA() {}
    explicit NogcMapA(const Program&) : s(new M()) {}
    R insert(long key, long inst, int form) {
        R r;
        auto i = form == 1 ? s->insert_with(key, [&r, inst](typename M::value_type& item) { ++r.calls; item.second = inst; }) : form == 2 ? s->emplace(long(key), inst) : s->insert(key, inst);
        r.ok = i != s->end(); if ((form == 1 && ((r.ok && r.calls != 1) || (!r.ok && r.calls))) || (r.ok && i->first != key)) r.calls = -100; return r;
    }
    R erase(long, int) { return R(); }
    R contains(long key) { R r; auto i = s->contains(key); r.ok = i != s->end(); return r; }
    R find(long key) { R r; auto i = s->contains(key); r.ok = i != s->end(); if (r.ok) { r.inst = (long)i->second; if (i->first != key) r.calls = -100; } return r; }
    // update() default-constructs the mapped value of a new element; the caller fills it in afterwards (unsynchronised by design: readers may see 0)
    R update(long key, long inst, bool allow) { R r; auto p = s->update(key, allow); r.ok = p.first != s->end(); r.inserted = p.second; if (r.ok) { if (p.second) p.first->second = inst; r.inst = (long)p.first->second; if (p.first->first != key) r.calls = -100; } else if (p.second) r.calls = -100; return r; }
    R extract(long) { return R(); } R get(long) { return R(); } R extract_min() { return R(); } R extract_max() { return R(); }
    bool traverse(std::vector<long>& out) { if (!CFG::has_iter) return false; iter_all(*s, out, 0); return true; }
    long size() { return CFG::has_size ? (long)s->size() : -1; }
    bool empty() { return s->empty(); }
    bool consistent(std::string&) { return true; }
    void probes(Ctx&) {}
};

// C18 for split lists: the traversal must follow split order = increasing bit-reversed hash, ties (equal hashes) in key order
inline size_t rbo64(size_t x) { size_t r = 0; for (int i = 0; i < 64; i++) { r = (r << 1) | (x & 1); x >>= 1; } return r; }
inline bool split_order_ok(const std::vector<long>& keys, std::string& why) {
    for (size_t i = 1; i < keys.size(); i++) {
        size_t a = rbo64(mkhash(keys[i - 1])), b = rbo64(mkhash(keys[i]));
        if (a > b || (a == b && keys[i - 1] >= keys[i])) { char buf[160]; snprintf(buf, sizeof buf, "split list: quiescent traversal is not in split order: key %ld (hash %zx) is followed by key %ld (hash %zx)", keys[i - 1], mkhash(keys[i - 1]), keys[i], mkhash(keys[i])); why = buf; return false; }
    }
    return true;
}

// ---- program generation
struct GenCfg { unsigned caps = CAPS_FULL; int max_threads_quick = 3, max_threads_thorough = 4, max_ops = 5, nkeys_hot = 3, nkeys_cold = 2, min_hazards = 8; int insert_forms = 3, erase_forms = 2; bool readers_may_start_late = true; int hash_modes = 0; };
inline void smr_knobs(Rng& r, Program& p, int nthreads, int min_hazards) {
    int H = min_hazards + r.below(3), T = nthreads + 1 + r.below(2);
    p.set("hp_H", H); p.set("hp_T", T); p.set("hp_R", r.pick({H * T + 1, H * T + 2, 2 * H * T})); p.set("hp_classic", r.chance(200));
    p.set("dhp_init", r.pick({4, 16})); p.set("rcu_capacity", r.pick({1, 2, 3, 8})); p.set("eager", r.pick({0, 100, 300, 600}));
}
inline int pick_kind(Rng& r, unsigned caps, int profile) {
    // profiles: 0 balanced, 1 insert-heavy, 2 erase-heavy, 3 read-heavy
    static const int w[4][NKIND] = {{25, 20, 8, 8, 12, 5, 8, 6, 4, 4}, {45, 8, 6, 6, 20, 3, 4, 4, 2, 2}, {15, 35, 5, 5, 6, 4, 15, 5, 5, 5}, {12, 10, 22, 22, 6, 4, 4, 14, 3, 3}};
    int tot = 0; for (int k = 0; k < NKIND; k++) if (caps & CAP(k)) tot += w[profile][k];
    int x = r.below(tot > 0 ? tot : 1);
    for (int k = 0; k < NKIND; k++) if (caps & CAP(k)) { if (x < w[profile][k]) return k; x -= w[profile][k]; }
    return CONTAINS;
}
inline void gen_program(Rng& r, Program& p, int tier, const GenCfg& g0) {
    GenCfg g = g0; const std::string& prop = current_prop();
    bool c17 = prop == "C17", c18 = prop == "C18", c20 = prop == "C20";
    int lo_threads = 2, total_cap = 14;
    if (c17) { g.caps &= (CAP(INSERT) | CAP(UPDATE) | CAP(CONTAINS) | CAP(FIND) | CAP(ERASE)); g.nkeys_hot = 8; g.nkeys_cold = 0; g.max_ops = 7; lo_threads = 1; g.max_threads_quick = 3; total_cap = 16; }
    if (c18) { g.max_ops = 8; g.max_threads_quick = 4; g.nkeys_hot = 6; g.nkeys_cold = 2; total_cap = 24; }
    if (c20) { lo_threads = 1; g.max_threads_quick = g.max_threads_thorough = 1; g.max_ops = 36; g.nkeys_hot = 6; g.nkeys_cold = 6; total_cap = 36; }
    int nth = r.range(lo_threads, tier ? g.max_threads_thorough : g.max_threads_quick);
    int hot = r.range(2, g.nkeys_hot), cold = r.below(g.nkeys_cold + 1);
    p.set("keys", hot + cold); p.set("prefill_mask", c17 ? r.below(4) : r.below(1 << (hot + cold)));
    // aged structure: some prefilled keys are erased again before the clients start (empty IterableList nodes, Bronson routing nodes, marked / recycled nodes, Feldman slots emptied after a split)
    p.set("pre_erase_mask", (!c17 && (g.caps & CAP(ERASE)) && r.chance(500)) ? (p.knob("prefill_mask") & r.below(1 << (hot + cold))) : 0);
    p.set("with_pred", r.chance(330));
    p.set("hash_mode", g.hash_modes ? (c17 ? r.pick({1, 1, 2, 2, 0, 3}) % g.hash_modes : r.below(g.hash_modes)) : 0);
    smr_knobs(r, p, nth, g.min_hazards);
    p.threads.resize(nth);
    int total = 0;
    for (int t = 0; t < nth; t++) {
        if (t > 0 && g.readers_may_start_late && r.chance(120)) p.threads[t].start_after = r.below(t);
        int nops = c20 ? r.range(8, g.max_ops) : r.range(1, g.max_ops), profile = c17 ? 1 : r.below(4);
        // "do / undo" threads (ABA recipe): insert a, insert b, erase a, erase b ... restores earlier shapes while another thread is parked
        bool undo = !c17 && !c20 && (g.caps & CAP(ERASE)) && r.chance(150); long ua = 1 + r.below(hot + cold), ub = 1 + r.below(hot + cold); int uphase = r.below(4);
        for (int k = 0; k < nops && total < total_cap; k++, total++) {
            if (undo) { int ph = (uphase + k) & 3; p.add(t, ph < 2 ? INSERT : ERASE, (ph & 1) ? ub : ua, 0, 0); continue; }
            int kind = pick_kind(r, g.caps, profile);
            if (c20 && r.chance(40)) { p.add(t, CLEAR, 0, 0, 0); continue; }
            long key = 1 + (r.chance(800) ? r.below(hot) : r.below(hot + cold));
            int form = kind == INSERT ? r.below(g.insert_forms) : kind == ERASE ? r.below(g.erase_forms) : 0;
            p.add(t, kind, key, 0, form);
        }
    }
}

// ---- execution
extern const Ctx* g_consistency_ctx;   // history of the current run, for structure checks that need to know which keys were ever erased (defined in harness/core.cpp)
template <class A> auto exclusive_of(int) -> decltype((bool)A::exclusive_functors) { return A::exclusive_functors; }
template <class A> bool exclusive_of(long) { return false; }
template <class A> auto after_smr_of(Ctx& c, int) -> decltype(A::after_smr(c), void()) { A::after_smr(c); }
template <class A> void after_smr_of(Ctx&, long) {}
template <class A> auto clear_of(A& a, int) -> decltype(a.clear(), void()) { a.clear(); }
template <class A> void clear_of(A& a, long) { a.s->clear(); }
template <class A> R apply(A& a, const Op& op, long newinst) {
    switch (op.kind) {
    case CLEAR: { R r; clear_of(a, 0); r.ok = true; return r; }
    case INSERT: return a.insert(op.a, newinst, (int)op.c);
    case ERASE: return a.erase(op.a, (int)op.c);
    case CONTAINS: return a.contains(op.a);
    case FIND: return a.find(op.a);
    case UPDATE: return a.update(op.a, newinst, true);
    case UPSERT_NOINS: return a.update(op.a, newinst, false);
    case EXTRACT: return a.extract(op.a);
    case GET: return a.get(op.a);
    case EXTRACT_MIN: return a.extract_min();
    case EXTRACT_MAX: return a.extract_max();
    }
    return R();
}
template <class A> void record(Ctx& ctx, A& a, int thread, Op op) {
    long newinst = 1000 + op.id; op.b = newinst;
    int h = ctx.begin_op(thread, op);
    R r = apply(a, op, newinst);
    ctx.end_op(h, r.ok, r.inst, (op.kind == EXTRACT_MIN || op.kind == EXTRACT_MAX) ? r.key : (long)r.inserted);
    if (r.drop) ctx.hist[h].done = false;
    if (r.overlap) ctx.fail("functor-overlap", "%s(%ld): the user functor ran while another thread's functor was running on the same key although the container calls functors under the element's bucket lock: two threads were inside one bucket", opnames[op.kind], op.a);
    if (r.poisoned) ctx.fail("freed-element-observed", "%s(%ld): the element handed to the user functor was freed while the functor was running (the lock / guard / critical section that should protect it did not)", opnames[op.kind], op.a);
    if (r.calls < 0) ctx.fail("functor-call-count", "%s(%ld): the user functor was not called exactly as documented (once on success, never on failure)", opnames[op.kind], op.a);
}

template <class A> void run(Ctx& ctx) {
    const Program& P = *ctx.prog;
    g_hash_mode = (int)P.knob("hash_mode"); g_with_pred = P.knob("with_pred") != 0; g_exclusive_functors = exclusive_of<A>(0); memset(g_functor_occupancy, 0, sizeof g_functor_occupancy);
    {
        typename A::Smr smr(P);
        cds::threading::Manager::attachThread();
        {
            A a(P);
            int nkeys = (int)P.knob("keys", 3); long mask = P.knob("prefill_mask");
            int nid = 5000; Op o;
            // prefill order (knob, default ascending): descending or a knob-seeded shuffle gives search trees other initial shapes than the
            // one sorted insertion always builds (pre-existing inner nodes that a later double rotation moves while readers sit on them)
            std::vector<int> pre; for (int k = 1; k <= nkeys; k++) if (mask >> (k - 1) & 1) pre.push_back(k);
            long pord = P.knob("prefill_order", 0);
            if (pord == 1) std::reverse(pre.begin(), pre.end());
            else if (pord >= 2) { unsigned long x = (unsigned long)pord * 2862933555777941757UL + 3037000493UL; for (size_t i = pre.size(); i > 1; i--) { x = x * 6364136223846793005UL + 1442695040888963407UL; std::swap(pre[i - 1], pre[(x >> 33) % i]); } }
            for (int k : pre) { o = Op(); o.id = nid++; o.kind = INSERT; o.a = k; record(ctx, a, 99, o); }
            long emask = P.knob("pre_erase_mask");
            for (int k = 1; k <= nkeys; k++) if (emask >> (k - 1) & 1) { o = Op(); o.id = nid++; o.kind = ERASE; o.a = k; record(ctx, a, 99, o); }
            int eager = (int)P.knob("eager");
            ctx.run_clients(
                [&](int) { cds::threading::Manager::attachThread(); },
                [&](int i, const Op& op) { record(ctx, a, i, op); if (eager && dsim::decide(dsim::D_EAGER, eager)) { A::Smr::eager(); ctx.probe("F10_eager_reclaim"); } },
                [&](int) { A::Smr::detach(); });
            // quiescent observation, part of the checked history
            std::set<long> present;
            for (int k = 1; k <= nkeys; k++) {
                o = Op(); o.id = nid++; o.kind = (A::caps & CAP(FIND)) ? FIND : CONTAINS; o.a = k; long newinst = 0; o.b = newinst;
                int h = ctx.begin_op(99, o); R r = apply(a, o, newinst); ctx.end_op(h, r.ok, r.inst, 0); if (r.ok) present.insert(k);
            }
            // structural checks at quiescence (C18): exact traversal, order, size()/empty(), consistency checks
            std::vector<long> seen;
            if (a.traverse(seen)) {
                ctx.probe("quiescent_traversals");
                if (A::ordered) for (size_t i = 1; i < seen.size(); i++) if (seen[i] <= seen[i - 1]) { ctx.fail("traversal-order", "quiescent traversal is not strictly increasing: key %ld follows %ld", seen[i], seen[i - 1]); break; }
                std::multiset<long> ms(seen.begin(), seen.end());
                for (long k : present) if (ms.count(k) != 1) { ctx.fail("traversal-mismatch", "key %ld is present (find succeeded at quiescence) but traversal visited it %d times", k, (int)ms.count(k)); break; }
                for (long k : seen) if (!present.count(k)) { ctx.fail("traversal-mismatch", "traversal visited key %ld which find does not see at quiescence", k); break; }
            }
            long sz = a.size();
            if (sz >= 0 && sz != (long)present.size()) ctx.fail("size-mismatch", "size() reports %ld but %d keys are present at quiescence", sz, (int)present.size());
            if (sz >= 0 && a.empty() != present.empty()) ctx.fail("size-mismatch", "empty() reports %d but %d keys are present at quiescence", (int)a.empty(), (int)present.size());
            g_consistency_ctx = &ctx;
            std::string why; if (!a.consistent(why)) { std::string cls = "inconsistent-structure"; if (why.size() > 1 && why[0] == '@') { size_t e = why.find(' '); cls = why.substr(1, e - 1); why = why.substr(e + 1); } ctx.fail(cls.c_str(), "%s", why.c_str()); }   // "@class text" lets an adapter name a more specific class
            a.probes(ctx);
        }
        cds::threading::Manager::detachThread();
    }
    after_smr_of<A>(ctx, 0);   // intrusive subjects: disposer accounting once container and SMR singleton are gone
}
template <class A> void check(Ctx& ctx) {
    // relaxed oracle for extract_min / extract_max (DESIGN.md §6): emptiness and minimality against keys definitely present throughout the call
    MapModel m(A::update_replaces, true);
    LinChecker<MapModel> lc(m, ctx.hist);
    LinResult r = lc.check(MapModel::State());
    ctx.probe("lin_nodes", r.nodes);
    if (r.inconclusive) { ctx.probe("lin_inconclusive"); return; }
    if (!r.ok) { ctx.fail("not-linearizable", "history of %d operations is not linearizable to the sequential key->instance map: %s", (int)ctx.hist.size(), describe_history(ctx.hist, opnames, 26).c_str()); return; }
    for (auto& e : ctx.hist) {
        if (!e.done || (e.kind != EXTRACT_MIN && e.kind != EXTRACT_MAX)) continue;
        // key k is definitely present throughout [e.inv, e.ret] iff some creating op returned before e.inv and no
        // possibly-removing op on k overlaps the span from that creation's invocation to e.ret
        for (auto& ins : ctx.hist) {
            if (!ins.done || !ins.r || ins.ret >= e.inv) continue;
            bool creates = ins.kind == INSERT || (ins.kind == UPDATE && ins.r3);
            if (!creates) continue;
            long k = ins.a; bool maybe_removed = false;
            for (auto& rm : ctx.hist) {
                if (&rm == &e) continue;
                bool on_k;
                if (rm.kind == ERASE || rm.kind == EXTRACT) on_k = rm.a == k && (!rm.done || rm.r);
                else if (rm.kind == EXTRACT_MIN || rm.kind == EXTRACT_MAX) on_k = !rm.done || (rm.r && rm.r3 == k);
                else if (rm.kind == CLEAR) on_k = true;
                else on_k = false;
                if (!on_k) continue;
                uint64_t rret = rm.done ? rm.ret : ~0ULL;
                if (rm.inv < e.ret && rret > ins.inv) { maybe_removed = true; break; }
            }
            if (maybe_removed) continue;
            if (!e.r) { ctx.fail("extract-minmax-false-empty", "%s returned empty although key %ld was present throughout the call", opnames[e.kind], k); return; }
            if (e.kind == EXTRACT_MIN && k < e.r3) { ctx.fail("extract-minmax-order", "extract_min returned key %ld although smaller key %ld was present throughout the call", e.r3, k); return; }
            if (e.kind == EXTRACT_MAX && k > e.r3) { ctx.fail("extract-minmax-order", "extract_max returned key %ld although larger key %ld was present throughout the call", e.r3, k); return; }
        }
    }
}
inline void tune_default(dsim::Params& p, Rng& r, const Program&, const std::string& prop) { p.soft_cap = 200000; p.hard_cap = 400000; p.f6_permille = r.pick({0, 0, 10}); p.f7_maxdelay = r.pick({0, 0, 50}); if (prop == "C20") p.f1_permille = r.pick({0, 20, 100, 200}); }

} // namespace smc

#define SM_SUBJECT(var, NAME, PROPS, ADAPTER, GENFN, COMP) \
    static const vh::Subject var = {NAME, PROPS, GENFN, smc::run<ADAPTER>, smc::check<ADAPTER>, smc::tune_default, smc::opnames, COMP}; \
    static vh::Registrar var##_reg(&var);
