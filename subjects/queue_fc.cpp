// C06: RWQueue and FCQueue (flat combining, with/without elimination, all wait strategies, intrusive variant).
#include <cds/container/rwqueue.h>
#include <cds/container/fcqueue.h>
#include <cds/intrusive/fcqueue.h>
#include <boost/intrusive/list.hpp>
#include <boost/intrusive/slist.hpp>
#include <list>
#include <mutex>
#include <queue>
#include "seq_common.h"

using namespace seqc;
namespace cc = cds::container; namespace ci = cds::intrusive; namespace fc = cds::algo::flat_combining;

namespace {
struct Base { long model_override(const Program&) { return 0; } std::function<void(Ctx&)> post_check() { return std::function<void(Ctx&)>(); } static const bool pop_empty_unconstrained = false; long capacity() { return -1; } bool push_front(long, int) { return false; } bool pop_back(long&, int) { return false; } };

template <class Q> struct RwA : Base {
    typedef SmrNone Smr; static const SeqModel::Kind kind = SeqModel::FIFO;
    Q q; explicit RwA(const Program&) {}
    bool push(long v, int form) { switch (form) { case 1: return q.emplace(v); case 2: return q.enqueue_with([v](long& d) { d = v; }); default: return q.enqueue(v); } }
    bool pop(long& v, int form) { if (form == 1) return q.dequeue_with([&v](long& s) { v = s; }); return q.dequeue(v); }
    void probes(Ctx&) {}
};
struct rw_mutex : cc::rwqueue::traits { typedef std::mutex lock_type; typedef cds::atomicity::item_counter item_counter; };

template <class Q> struct FcA : Base {
    typedef SmrNone Smr; static const SeqModel::Kind kind = SeqModel::FIFO;
    Q q; explicit FcA(const Program& p) : q((unsigned)p.knob("fc_compact", 1), (unsigned)p.knob("fc_pass", 1)) {}
    bool push(long v, int form) { if (form == 1) { long t = v; return q.enqueue(std::move(t)); } return form == 2 ? q.push(v) : q.enqueue(v); }
    bool pop(long& v, int form) { return form == 1 ? q.pop(v) : q.dequeue(v); }
    void probes(Ctx& c) { auto const& s = q.statistics(); c.probe("fc_combining_passes", (long)s.m_nCombiningCount.get()); c.probe("fc_pubrecords_deleted", (long)s.m_nPubRecordDeleted.get()); c.probe("fc_collided", (long)s.m_nCollided.get()); c.probe("fc_wakeups_by_notify", (long)s.m_nWakeupByNotifying.get()); c.probe("fc_invoke_exclusive", (long)s.m_nInvokeExclusive.get()); }
};
template <bool Elim, class Wait> struct fc_traits : cc::fcqueue::traits { static constexpr const bool enable_elimination = Elim; typedef Wait wait_strategy; typedef cc::fcqueue::stat<> stat; };

struct INode : boost::intrusive::list_base_hook<> { long v; };
struct SNode : boost::intrusive::slist_base_hook<> { long v; };
template <class Node> struct IDisp { void operator()(Node* p) const { delete p; } };
template <class Node, class Q> struct FcI : Base {
    typedef SmrNone Smr; static const SeqModel::Kind kind = SeqModel::FIFO;
    Q q; explicit FcI(const Program& p) : q((unsigned)p.knob("fc_compact", 1), (unsigned)p.knob("fc_pass", 1)) {}
    ~FcI() { q.clear(true); }
    bool push(long v, int) { Node* n = new Node(); n->v = v; return q.enqueue(*n); }
    bool pop(long& v, int) { Node* n = q.dequeue(); if (!n) return false; v = n->v; delete n; return true; }
    void probes(Ctx& c) { auto const& s = q.statistics(); c.probe("fc_combining_passes", (long)s.m_nCombiningCount.get()); c.probe("fc_collided", (long)s.m_nCollided.get()); }
};
template <class Node, bool Elim> struct fci_traits : ci::fcqueue::traits { typedef IDisp<Node> disposer; static constexpr const bool enable_elimination = Elim; typedef ci::fcqueue::stat<> stat; };

void gen_rw(Rng& r, Program& p, int tier, const std::string&) { GenCfg g; g.push_forms = 3; g.pop_forms = 2; gen_program(r, p, tier, g); }
void gen_fc(Rng& r, Program& p, int tier, const std::string&) { GenCfg g; g.push_forms = 3; g.pop_forms = 2; g.max_threads_quick = 4; gen_program(r, p, tier, g); p.set("fc_compact", r.pick({1, 1, 2, 4})); p.set("fc_pass", r.range(1, 3)); }

#define COMPF(f) "real: " f " cds/algo/flat_combining/kernel.h wait_strategy.h (publication list, combiner lock, compaction, boost TSS thread-exit cleanup); simulated: scheduler, std::mutex/condvar, sleeps and time-outs (simulated clock, early time-outs, spurious wake-ups); oracle: linearizability vs FIFO"
typedef RwA<cc::RWQueue<long>> A_rw1; SEQ_SUBJECT(rw1, "queue.RWQueue_spin", "C06", A_rw1, gen_rw, "real: cds/container/rwqueue.h cds/sync/spinlock.h; simulated: scheduler; oracle: linearizability vs FIFO")
typedef RwA<cc::RWQueue<long, rw_mutex>> A_rw2; SEQ_SUBJECT(rw2, "queue.RWQueue_mutex_ic", "C06", A_rw2, gen_rw, "real: cds/container/rwqueue.h; simulated: scheduler, std::mutex; oracle: linearizability vs FIFO")
typedef FcA<cc::FCQueue<long, std::queue<long>, fc_traits<false, fc::wait_strategy::backoff<>>>> A_f1; SEQ_SUBJECT(f1, "queue.FCQueue_backoff", "C06", A_f1, gen_fc, COMPF("cds/container/fcqueue.h"))
typedef FcA<cc::FCQueue<long, std::queue<long, std::list<long>>, fc_traits<true, fc::wait_strategy::backoff<>>>> A_f2; SEQ_SUBJECT(f2, "queue.FCQueue_list_elim", "C06", A_f2, gen_fc, COMPF("cds/container/fcqueue.h (elimination)"))
typedef FcA<cc::FCQueue<long, std::queue<long>, fc_traits<false, fc::wait_strategy::empty>>> A_f3; SEQ_SUBJECT(f3, "queue.FCQueue_wait_empty", "C06", A_f3, gen_fc, COMPF("cds/container/fcqueue.h"))
typedef FcA<cc::FCQueue<long, std::queue<long>, fc_traits<true, fc::wait_strategy::single_mutex_single_condvar<2>>>> A_f4; SEQ_SUBJECT(f4, "queue.FCQueue_elim_smsc", "C06", A_f4, gen_fc, COMPF("cds/container/fcqueue.h (elimination)"))
typedef FcA<cc::FCQueue<long, std::queue<long>, fc_traits<false, fc::wait_strategy::single_mutex_multi_condvar<2>>>> A_f5; SEQ_SUBJECT(f5, "queue.FCQueue_smmc", "C06", A_f5, gen_fc, COMPF("cds/container/fcqueue.h"))
typedef FcA<cc::FCQueue<long, std::queue<long>, fc_traits<true, fc::wait_strategy::multi_mutex_multi_condvar<2>>>> A_f6; SEQ_SUBJECT(f6, "queue.FCQueue_elim_mmmc", "C06", A_f6, gen_fc, COMPF("cds/container/fcqueue.h (elimination)"))
typedef FcI<INode, ci::FCQueue<INode, boost::intrusive::list<INode>, fci_traits<INode, false>>> A_g1; SEQ_SUBJECT(g1, "queue.iFCQueue_list", "C06", A_g1, gen_fc, COMPF("cds/intrusive/fcqueue.h"))
typedef FcI<SNode, ci::FCQueue<SNode, boost::intrusive::slist<SNode, boost::intrusive::cache_last<true>>, fci_traits<SNode, true>>> A_g2; SEQ_SUBJECT(g2, "queue.iFCQueue_slist_elim", "C06", A_g2, gen_fc, COMPF("cds/intrusive/fcqueue.h (elimination)"))
} // namespace
