// C15 (insert-only variants): SkipListSet / SkipListMap over cds::gc::nogc with forced tower heights; get_min / get_max at quiescence.
#include <cds/container/skip_list_set_nogc.h>
#include <cds/container/skip_list_map_nogc.h>
#include "setmap_common.h"

using namespace smc;
namespace cc = cds::container;
namespace {
typedef cds::gc::nogc NOGC;
static int g_level_mode;
struct SimLevel {
    static unsigned int const c_nUpperBound = 32; unsigned state;
    SimLevel() : state(0x9E3779B9u) {}
    unsigned operator()() { if (g_level_mode == 0) return 0; if (g_level_mode == 1) return 5 + (state++ & 3); state ^= state << 13; state ^= state >> 17; state ^= state << 5; unsigned l = 0, x = state; while ((x & 1) && l < 10) { ++l; x >>= 1; } return l; }
};
struct sk_less : cc::skip_list::traits { typedef Less less; typedef cds::atomicity::item_counter item_counter; typedef SimLevel random_level_generator; typedef cc::skip_list::stat<> stat; };
struct sk_cmp : cc::skip_list::traits { typedef Cmp compare; typedef cds::atomicity::item_counter item_counter; typedef SimLevel random_level_generator; };
typedef Cfg<CAPS_NOGC> C_nogc;
template <class B> struct WithMinMax : B {
    explicit WithMinMax(const Program& p) { g_level_mode = (int)p.knob("level_mode", 2); this->s.reset(new typename B::container()); }
    bool consistent(std::string& why) {
        std::vector<long> seen; this->traverse(seen);
        auto* mn = this->s->get_min(); auto* mx = this->s->get_max();
        if (seen.empty()) { if (mn || mx) { why = "get_min()/get_max() return an element although the list is empty"; return false; } return true; }
        if (!mn || key_of(*mn) != seen.front()) { why = "get_min() does not return the first element at quiescence"; return false; }
        if (!mx || key_of(*mx) != seen.back()) { why = "get_max() does not return the last element at quiescence"; return false; }
        return true;
    }
};
void gen(Rng& r, Program& p, int tier, const std::string&) { GenCfg g; g.caps = CAPS_NOGC; g.nkeys_hot = 6; g.nkeys_cold = 2; g.max_ops = 6; gen_program(r, p, tier, g); p.set("level_mode", r.below(3)); }
#define COMPN(f) "real: " f " (insert-only skip list); simulated: scheduler, weak-CAS failures, stalls, late threads, forced tower heights; oracle: linearizability vs ordered key->instance map, quiescent find, exact ordered traversal, size(), get_min/get_max"
#define NS(var, NAME, A, F) typedef WithMinMax<A> T_##var; SM_SUBJECT(var, NAME, "C15,C18,C20", T_##var, gen, COMPN(F))
typedef cc::SkipListSet<NOGC, Item, sk_less> S1; typedef NogcSetA<S1, C_nogc> A1; NS(s1, "tree.SkipListSet_nogc", A1, "cds/container/skip_list_set_nogc.h cds/intrusive/skip_list_nogc.h")
typedef cc::SkipListSet<NOGC, Item, sk_cmp> S2; typedef NogcSetA<S2, C_nogc> A2; NS(s2, "tree.SkipListSet_nogc_cmp", A2, "cds/container/skip_list_set_nogc.h cds/intrusive/skip_list_nogc.h")
typedef cc::SkipListMap<NOGC, long, long, sk_less> M1; typedef NogcMapA<M1, C_nogc> A3; NS(m1, "tree.SkipListMap_nogc", A3, "cds/container/skip_list_map_nogc.h")
} // namespace
