// C08: SegmentedQueue (container + intrusive, HP + DHP, quasi factors 2, 3(->4), 4, 8, both permutation generators):
// conservation, quasi-FIFO bound, "empty only if every earlier-completed item was taken" — interval oracles over the history.
#include <cds/container/segmented_queue.h>
#include <cds/intrusive/segmented_queue.h>
#include <map>
#include <set>
#include "seq_common.h"

using namespace seqc;
namespace cc = cds::container; namespace ci = cds::intrusive;

namespace {
struct Base { long model_override(const Program&) { return 0; } std::function<void(Ctx&)> post_check() { return std::function<void(Ctx&)>(); } static const bool pop_empty_unconstrained = false; bool push_front(long, int) { return false; } bool pop_back(long&, int) { return false; } };

template <class GC, class Q> struct SqA : Base {
    typedef typename SmrOf<GC>::type Smr; static const SeqModel::Kind kind = SeqModel::FIFO;
    Q q; explicit SqA(const Program& p) : q((size_t)p.knob("quasi", 2)) {}
    long capacity() { return (long)q.quasi_factor(); }
    bool push(long v, int form) { switch (form) { case 1: return q.enqueue_with([v](long& d) { d = v; }); case 2: { long t = v; return q.push(std::move(t)); } default: return q.enqueue(v); } }
    bool pop(long& v, int form) { if (form == 1) return q.dequeue_with([&v](long& s) { v = s; }); return q.dequeue(v); }
    void probes(Ctx& c) { auto const& s = q.statistics(); c.probe("segq_segments_created", (long)s.m_nSegmentCreated.get()); c.probe("segq_segments_deleted", (long)s.m_nSegmentDeleted.get()); c.probe("segq_push_contended", (long)s.m_nPushContended.get()); c.probe("segq_pop_contended", (long)s.m_nPopContended.get()); }
};
template <class Perm> struct sq_traits : cc::segmented_queue::traits { typedef cc::segmented_queue::stat<> stat; typedef Perm permutation_generator; };
struct INode { long v; int disposed; };
struct IBook { long dbl = 0; };
static IBook* g_ib;
struct IDisp { void operator()(INode* p) const { if (++p->disposed > 1 && g_ib) ++g_ib->dbl; } };
template <class Perm> struct isq_traits : ci::segmented_queue::traits { typedef ci::segmented_queue::stat<> stat; typedef IDisp disposer; typedef Perm permutation_generator; };
template <class GC, class Q> struct SqI : Base {
    typedef typename SmrOf<GC>::type Smr; static const SeqModel::Kind kind = SeqModel::FIFO;
    std::shared_ptr<IBook> book; std::vector<INode*> nodes; Q q;
    explicit SqI(const Program& p) : book(new IBook()), q((size_t)p.knob("quasi", 2)) { g_ib = book.get(); }
    ~SqI() { for (INode* n : nodes) delete n; g_ib = nullptr; }
    long capacity() { return (long)q.quasi_factor(); }
    bool push(long v, int) { INode* n = new INode(); n->v = v; n->disposed = 0; nodes.push_back(n); return q.enqueue(*n); }
    bool pop(long& v, int) { INode* n = q.dequeue(); if (!n) return false; v = n->v; return true; }
    void probes(Ctx& c) { auto const& s = q.statistics(); c.probe("segq_segments_created", (long)s.m_nSegmentCreated.get()); c.probe("segq_segments_deleted", (long)s.m_nSegmentDeleted.get()); if (book->dbl) c.fail("double-dispose", "%ld intrusive nodes disposed twice", book->dbl); }
};

void gen(Rng& r, Program& p, int tier, const std::string&) {
    GenCfg g; g.push_forms = 3; g.pop_forms = 2; g.min_hazards = 3; g.max_ops = 6; g.max_prefill = 5; g.push_permille = 550; gen_program(r, p, tier, g);
    p.set("quasi", r.pick({2, 2, 3, 4, 8}));
}
void gen_i(Rng& r, Program& p, int tier, const std::string&) { GenCfg g; g.min_hazards = 3; g.max_ops = 6; g.max_prefill = 5; g.push_permille = 550; gen_program(r, p, tier, g); p.set("quasi", r.pick({2, 2, 3, 4, 8})); }

// ---- oracle (DESIGN.md §6 C08)
void check_segq(Ctx& ctx) {
    long qf = ctx.aux[0];   // what quasi_factor() reports (already rounded up to a power of two)
    std::map<long, const Event*> enq, deq;
    for (auto& e : ctx.hist) {
        if (!e.done) continue;
        if (e.kind == PUSH) { if (!e.r) { ctx.fail("enqueue-failed", "enqueue(%ld) returned false", e.a); return; } enq[e.a] = &e; }
        else if (e.kind == POP && e.r) { if (deq.count(e.r2)) { ctx.fail("duplicate-dequeue", "item %ld was dequeued twice", e.r2); return; } deq[e.r2] = &e; }
    }
    for (auto& d : deq) if (!enq.count(d.first)) { ctx.fail("invented-item", "dequeued item %ld was never enqueued", d.first); return; }
    for (auto& e : enq) if (!deq.count(e.first)) { ctx.fail("lost-item", "item %ld was enqueued but neither dequeued nor found by the quiescent drain", e.first); return; }
    // quasi-FIFO bound: when x is dequeued, fewer than qf items whose enqueue completed before x's enqueue began are definitely still queued
    for (auto& d : deq) {
        const Event* x = enq[d.first]; const Event* dx = d.second; long cnt = 0;
        for (auto& e : enq) {
            if (e.first == d.first) continue; const Event* y = e.second;
            if (!(y->ret < x->inv)) continue;
            const Event* dy = deq[e.first];
            if (dy->inv > dx->ret) ++cnt;     // y taken by a call invoked only after x's dequeue had returned: definitely still queued
        }
        if (cnt >= qf) { ctx.fail("quasi-fifo-bound", "item %ld was dequeued while %ld items enqueued strictly before it were still queued (quasi factor %ld): %s", d.first, cnt, qf, describe_history(ctx.hist, opnames, 30).c_str()); return; }
    }
    // empty only if every item whose enqueue completed before the call began has been dequeued by a call invoked before the empty call returned
    for (auto& o : ctx.hist) {
        if (!o.done || o.kind != POP || o.r) continue;
        for (auto& e : enq) {
            const Event* y = e.second; if (!(y->ret < o.inv)) continue;
            const Event* dy = deq[e.first];
            if (!(dy->inv < o.ret)) { ctx.fail("false-empty", "dequeue [%llu,%llu] reported empty although item %ld (enqueue returned at %llu) had not been taken: %s", (unsigned long long)o.inv, (unsigned long long)o.ret, e.first, (unsigned long long)y->ret, describe_history(ctx.hist, opnames, 30).c_str()); return; }
        }
    }
}
typedef cds::gc::HP HP; typedef cds::gc::DHP DHP;
typedef cds::opt::v::random2_permutation<int> perm2; typedef cds::opt::v::random_permutation<int> permN;
#define COMPQ(f) "real: " f " (segment list, cell permutation via rand()), SMR; simulated: scheduler, weak-CAS failures, stalls, re-seeded rand(), eager reclamation; oracle: conservation + quasi-FIFO bound + emptiness interval oracles over the stamped history (incl. quiescent drain)"
#define SEG_SUBJECT(var, NAME, ADAPTER, GENFN, COMP) \
    static const vh::Subject var = {NAME, "C08", GENFN, seqc::run<ADAPTER>, check_segq, seqc::tune_default, seqc::opnames, COMP}; static vh::Registrar var##_reg(&var);
typedef SqA<HP, cc::SegmentedQueue<HP, long, sq_traits<perm2>>> A1; SEG_SUBJECT(s1, "segq.SegmentedQueue_HP", A1, gen, COMPQ("cds/container/segmented_queue.h cds/intrusive/segmented_queue.h"))
typedef SqA<DHP, cc::SegmentedQueue<DHP, long, sq_traits<perm2>>> A2; SEG_SUBJECT(s2, "segq.SegmentedQueue_DHP", A2, gen, COMPQ("cds/container/segmented_queue.h cds/intrusive/segmented_queue.h"))
typedef SqA<HP, cc::SegmentedQueue<HP, long, sq_traits<permN>>> A3; SEG_SUBJECT(s3, "segq.SegmentedQueue_HP_randperm", A3, gen, COMPQ("cds/container/segmented_queue.h (random_permutation)"))
typedef SqI<HP, ci::SegmentedQueue<HP, INode, isq_traits<perm2>>> A4; SEG_SUBJECT(s4, "segq.iSegmentedQueue_HP", A4, gen_i, COMPQ("cds/intrusive/segmented_queue.h"))
typedef SqI<DHP, ci::SegmentedQueue<DHP, INode, isq_traits<permN>>> A5; SEG_SUBJECT(s5, "segq.iSegmentedQueue_DHP_randperm", A5, gen_i, COMPQ("cds/intrusive/segmented_queue.h (random_permutation)"))
} // namespace
