// RCU exerciser: properties C04 (no reclamation under a pre-existing reader) and C05 (exactly-once disposal)
// for general_instant, general_buffered, general_threaded (real disposer thread on simulated condvars) and
// signal_buffered (real handler, simulated signal delivery).
#include <cds/init.h>
#include <cds/urcu/general_instant.h>
#include <cds/urcu/general_buffered.h>
#include <cds/urcu/general_threaded.h>
#include <cds/urcu/signal_buffered.h>
#include <cds/threading/model.h>
#include <memory>
#include "../harness/core.h"

namespace dsim { extern thread_local int t_bypass; }
using namespace vh;

namespace {
enum { O_READ, O_LOCK, O_UNLOCK, O_REPLACE, O_BATCH, O_SYNC, O_REATTACH, O_CLEAR };
const char* const opnames[] = {"read", "lock", "unlock", "replace", "batch_retire", "synchronize", "reattach", "clear", nullptr};

struct Obj { uint32_t magic; int idx; long payload; };
enum { LIVE = 0, RETIRED = 1, DISPOSED = 2 };
const uint64_t INF = ~0ULL;
struct Rec { Obj* p; int state, cell, retired_by, disposed_count; uint64_t unlink_step, retire_inv; };
struct CS { int thread; uint64_t t_lock_ret, t_unlock_inv; };
const int MAXREC = 4096, MAXCS = 4096, MAXCELL = 4;
struct World {
    Ctx* ctx; Rec rec[MAXREC]; int nrec; CS cs[MAXCS]; int ncs; bool destructing;
    Rec* find(void* p) { for (int i = nrec; i-- > 0;) if (rec[i].p == p) return &rec[i]; return nullptr; }
};
World* W;

void disposer(void* v) {
    Rec* r = W->find(v);
    if (!r) { W->ctx->fail("dispose-unknown", "disposer called with unknown pointer %p", v); return; }
    ++r->disposed_count;
    if (r->state == DISPOSED) { W->ctx->fail("double-dispose", "object #%d disposed twice", (int)(r - W->rec)); return; }
    if (r->state != RETIRED) { W->ctx->fail("dispose-not-retired", "object #%d disposed but never retired", (int)(r - W->rec)); return; }
    for (int i = 0; i < W->ncs; i++) {
        CS& c = W->cs[i];
        if (c.t_lock_ret < r->retire_inv && c.t_unlock_inv == INF) {
            W->ctx->fail("reclaimed-under-reader", "object #%d (retire invoked at %llu) disposed at step %llu by t%d while client %d is still inside a read-side critical section entered at %llu",
                         (int)(r - W->rec), (unsigned long long)r->retire_inv, (unsigned long long)dsim::now_step(), dsim::self_id(), c.thread, (unsigned long long)c.t_lock_ret);
            break;
        }
    }
    r->state = DISPOSED;
    W->ctx->probe(W->destructing ? "disposed_at_singleton_destruction" : "disposed_during_run");
    memset(r->p, 0xDD, sizeof(Obj));
}
struct DisposerFn { void operator()(Obj* p) const { disposer(p); } };

template <class RCU> struct Make;
template <> struct Make<cds::urcu::general_instant<>> { static cds::urcu::gc<cds::urcu::general_instant<>>* make(const Program&) { return new cds::urcu::gc<cds::urcu::general_instant<>>(); } static const bool buffered = false; };
template <> struct Make<cds::urcu::general_buffered<>> { static cds::urcu::gc<cds::urcu::general_buffered<>>* make(const Program& p) { return new cds::urcu::gc<cds::urcu::general_buffered<>>((size_t)p.knob("capacity", 2)); } static const bool buffered = true; };
template <> struct Make<cds::urcu::general_threaded<>> { static cds::urcu::gc<cds::urcu::general_threaded<>>* make(const Program& p) { return new cds::urcu::gc<cds::urcu::general_threaded<>>((size_t)p.knob("capacity", 2)); } static const bool buffered = true; };
template <> struct Make<cds::urcu::signal_buffered<>> { static cds::urcu::gc<cds::urcu::signal_buffered<>>* make(const Program& p) { return new cds::urcu::gc<cds::urcu::signal_buffered<>>((size_t)p.knob("capacity", 2)); } static const bool buffered = true; };

template <class RCU> void run(Ctx& ctx) {
    typedef cds::urcu::gc<RCU> gc;
    const Program& P = *ctx.prog;
    ++dsim::t_bypass; std::unique_ptr<World> world(new World()); --dsim::t_bypass;
    W = world.get(); W->ctx = &ctx; W->nrec = 0; W->ncs = 0; W->destructing = false;
    {
        std::unique_ptr<gc> rcu(Make<RCU>::make(P));
        cds::threading::Manager::attachThread();
        {
            atomics::atomic<Obj*> cell[MAXCELL]; int ncell = (int)P.knob("cells", 2);
            auto fresh = [&](int c) -> Obj* {
                Obj* o = (Obj*)::operator new(sizeof(Obj));
                if (W->nrec >= MAXREC) { ctx.fail("harness", "too many objects"); return nullptr; }
                Rec& r = W->rec[W->nrec]; r.p = o; r.state = LIVE; r.cell = c; r.retired_by = -1; r.disposed_count = 0; r.unlink_step = INF; r.retire_inv = INF;
                o->magic = 0xC0FFEE; o->idx = W->nrec; o->payload = W->nrec; ++W->nrec; return o;
            };
            auto deref_ok = [&](Obj* p, int thread) {
                if (!p) return;
                Rec* r = W->find(p); Obj t; memcpy(&t, (void*)p, sizeof t);
                if (!r || r->state == DISPOSED || t.magic != 0xC0FFEE) ctx.fail("deref-after-dispose", "client %d dereferenced object #%d inside its read-side critical section after it was disposed", thread, r ? (int)(r - W->rec) : -1);
            };
            auto unlink = [&](int c, Obj* repl) -> Obj* { Obj* old = cell[c].exchange(repl, atomics::memory_order_acq_rel); if (old) W->find(old)->unlink_step = dsim::now_step(); return old; };
            auto mark_retired = [&](Obj* old, int thread) { Rec* r = W->find(old); r->state = RETIRED; r->retired_by = thread; r->retire_inv = dsim::now_step(); };
            auto check_sync = [&](uint64_t inv, int thread) {
                for (int i = 0; i < W->ncs; i++) { CS& c = W->cs[i]; if (c.t_lock_ret < inv && c.t_unlock_inv == INF) { ctx.fail("synchronize-returned-early", "synchronize() invoked at %llu by client %d returned while client %d is still inside a critical section entered at %llu", (unsigned long long)inv, thread, c.thread, (unsigned long long)c.t_lock_ret); return; } }
            };
            for (int c = 0; c < MAXCELL; c++) cell[c].store(nullptr, atomics::memory_order_relaxed);
            for (int c = 0; c < ncell; c++) if (P.knob("prefill", 1)) cell[c].store(fresh(c), atomics::memory_order_release);
            struct TS { int depth; int cs; };
            std::vector<TS> ts(P.threads.size()); for (auto& t : ts) { t.depth = 0; t.cs = -1; }
            auto lock = [&](int i) { gc::access_lock(); TS& t = ts[i]; if (t.depth++ == 0) { if (W->ncs < MAXCS) { CS& c = W->cs[W->ncs]; c.thread = i; c.t_lock_ret = dsim::now_step(); c.t_unlock_inv = INF; t.cs = W->ncs++; } } };
            auto unlock = [&](int i) { TS& t = ts[i]; if (--t.depth == 0 && t.cs >= 0) { W->cs[t.cs].t_unlock_inv = dsim::now_step(); t.cs = -1; } gc::access_unlock(); };
            ctx.run_clients(
                [&](int) { cds::threading::Manager::attachThread(); },
                [&](int i, const Op& op) {
                    int hi = ctx.begin_op(i, op); long res = 0;
                    switch (op.kind) {
                    case O_READ: {
                        int c = (int)op.a % ncell; int nest = (int)op.c;
                        for (int k = 0; k <= nest; k++) lock(i);
                        Obj* p = cell[c].load(atomics::memory_order_acquire);
                        for (long k = 0; k < op.b; k++) dsim::point(dsim::K_USER);
                        if (nest > 0) { unlock(i); for (long k = 0; k < op.b; k++) dsim::point(dsim::K_USER); }
                        deref_ok(p, i);
                        for (int k = (nest > 0 ? 1 : 0); k <= nest; k++) unlock(i);
                        res = p ? (long)(W->find(p) - W->rec) : -1; break; }
                    case O_LOCK: lock(i); break;
                    case O_UNLOCK: if (ts[i].depth > 0) unlock(i); break;
                    case O_REPLACE: case O_CLEAR: {
                        if (ts[i].depth > 0) break;
                        int c = (int)op.a % ncell; Obj* n = op.kind == O_REPLACE ? fresh(c) : nullptr; Obj* old = unlink(c, n);
                        if (old) { mark_retired(old, i); if (op.b) gc::template retire_ptr<DisposerFn>(old); else gc::retire_ptr(old, disposer); }
                        break; }
                    case O_BATCH: {
                        if (ts[i].depth > 0) break;
                        int c = (int)op.a % ncell; std::vector<cds::urcu::retired_ptr> v;
                        for (long k = 0; k < op.b; k++) { Obj* old = unlink(c, fresh(c)); if (old) v.push_back(cds::urcu::retired_ptr(old, disposer)); }
                        for (auto& rp : v) mark_retired((Obj*)rp.m_p, i);
                        if (op.c) { size_t k = 0; gc::batch_retire([&]() -> cds::urcu::retired_ptr { return k < v.size() ? v[k++] : cds::urcu::retired_ptr(); }); }
                        else gc::batch_retire(v.begin(), v.end());
                        ctx.probe("batch_retire_ops"); break; }
                    case O_SYNC: { if (ts[i].depth > 0) break; uint64_t inv = dsim::now_step(); if (op.a) gc::force_dispose(); else gc::synchronize(); if (!op.a || Make<RCU>::buffered) check_sync(inv, i); ctx.probe("synchronize_ops"); break; }
                    case O_REATTACH: if (ts[i].depth == 0) { cds::threading::Manager::detachThread(); cds::threading::Manager::attachThread(); ctx.probe("reattach"); res = 1; } break;
                    }
                    ctx.end_op(hi, res);
                },
                [&](int i) { while (ts[i].depth > 0) unlock(i); cds::threading::Manager::detachThread(); });
            for (int c = 0; c < ncell; c++) { Obj* old = unlink(c, nullptr); if (old) { mark_retired(old, 63); gc::retire_ptr(old, disposer); } }
            if (P.knob("final_sync")) { uint64_t inv = dsim::now_step(); gc::synchronize(); check_sync(inv, 63); }
        }
        if (P.knob("final_detach", 1)) cds::threading::Manager::detachThread();
        W->destructing = true;
        rcu.reset();
        if (!P.knob("final_detach", 1)) cds::threading::Manager::detachThread();
    }
    for (int i = 0; i < W->nrec; i++) {
        Rec& r = W->rec[i];
        if (r.state == RETIRED) { ctx.fail("never-disposed", "object #%d (retire invoked at %llu by client %d) was not disposed by destruction of the RCU singleton", i, (unsigned long long)r.retire_inv, r.retired_by); break; }
        if (r.state == DISPOSED && r.disposed_count != 1) { ctx.fail("double-dispose", "object #%d disposed %d times", i, r.disposed_count); break; }
    }
    ctx.probe("objects", W->nrec); ctx.probe("critical_sections", W->ncs);
    W = nullptr;
}

void gen(Rng& r, Program& p, int tier, const std::string&) {
    int nth = r.range(2, tier ? 4 : 3), cells = r.range(1, 2);
    p.set("cells", cells); p.set("prefill", r.chance(850)); p.set("final_sync", r.below(2)); p.set("final_detach", r.chance(800));
    p.set("capacity", r.pick({1, 2, 2, 3, 8}));
    p.threads.resize(nth);
    int nwriters = 0;
    for (int t = 0; t < nth; t++) {
        if (t > 0 && r.chance(200)) p.threads[t].start_after = r.below(t);
        bool writer = (t == 0) || (nwriters < 2 && r.chance(300)); if (writer) ++nwriters;
        int nops = r.range(2, tier ? 7 : 5); int depth = 0;
        for (int k = 0; k < nops; k++) {
            int x = r.below(100);
            if (depth > 0) { if (x < 45) { p.add(t, O_UNLOCK); --depth; } else if (x < 60 && depth < 2) { p.add(t, O_LOCK); ++depth; } else p.add(t, O_READ, r.below(cells), r.pick({0, 1, 4}), r.below(2)); continue; }
            if (writer && x < 45) { if (r.chance(120)) p.add(t, O_CLEAR, r.below(cells), r.below(2)); else p.add(t, O_REPLACE, r.below(cells), r.below(2)); }
            else if (writer && x < 55) p.add(t, O_BATCH, r.below(cells), r.range(1, 4), r.below(2));
            else if (x < (writer ? 70 : 8)) p.add(t, O_SYNC, r.below(2));
            else if (x < (writer ? 74 : 14)) p.add(t, O_REATTACH);
            else if (x < (writer ? 78 : 30) && k + 1 < nops) { p.add(t, O_LOCK); ++depth; }
            else p.add(t, O_READ, r.below(cells), r.pick({0, 1, 4, 10}), r.below(3));
        }
        while (depth-- > 0) p.add(t, O_UNLOCK);
    }
}
void tune(dsim::Params& p, Rng& r, const Program&, const std::string&) {
    if (r.chance(300)) { p.tso_permille = r.pick({300, 600, 900}); p.tso_residency = r.pick({64, 512, 4096}); }
    p.f6_permille = r.pick({0, 0, 5, 20}); p.f7_maxdelay = r.pick({0, 0, 20, 200}); p.f8_permille = r.pick({0, 0, 5});
    p.soft_cap = 100000; p.hard_cap = 200000;
}
#define COMP(f) "real: cds/urcu/details/" f " gp.h/sh.h base.h (thread list, flip_and_wait), Vyukov buffer, cds::threading attach/detach; simulated: scheduler, mutex/condvar (std::mutex, std::condition_variable via interposed pthread calls), thread creation of the disposer thread, signal delivery (sigaction/pthread_kill), x86-TSO store buffer; harness: cells + disposer oracle"
const Subject s_gpi = {"smr.RCU_gpi", "C04,C05", gen, run<cds::urcu::general_instant<>>, nullptr, tune, opnames, COMP("gpi.h")};
const Subject s_gpb = {"smr.RCU_gpb", "C04,C05", gen, run<cds::urcu::general_buffered<>>, nullptr, tune, opnames, COMP("gpb.h")};
const Subject s_gpt = {"smr.RCU_gpt", "C04,C05", gen, run<cds::urcu::general_threaded<>>, nullptr, tune, opnames, COMP("gpt.h dispose_thread.h (real disposer thread)")};
const Subject s_shb = {"smr.RCU_shb", "C04,C05", gen, run<cds::urcu::signal_buffered<>>, nullptr, tune, opnames, COMP("sig_buffered.h (real signal handler)")};
Registrar r1(&s_gpi), r2(&s_gpb), r3(&s_gpt), r4(&s_shb);
} // namespace
