// C15: SkipListSet/Map, EllenBinTreeSet/Map (HP, DHP, RCU) and BronsonAVLTreeMap (RCU; value and pointer variants,
// injecting and pool monitors), incl. extract_min / extract_max (relaxed interval oracle) and C18 structure checks.
#include <cds/container/skip_list_set_hp.h>
#include <cds/container/skip_list_set_dhp.h>
#include <cds/container/skip_list_set_rcu.h>
#include <cds/container/skip_list_map_hp.h>
#include <cds/container/skip_list_map_rcu.h>
#include <cds/container/ellen_bintree_set_hp.h>
#include <cds/container/ellen_bintree_set_dhp.h>
#include <cds/container/ellen_bintree_set_rcu.h>
#include <cds/container/ellen_bintree_map_hp.h>
#include <cds/container/ellen_bintree_map_rcu.h>
#include <cds/container/bronson_avltree_map_rcu.h>
#include <cds/sync/pool_monitor.h>
#include <cds/memory/vyukov_queue_pool.h>
#include "setmap_common.h"

using namespace smc;
namespace cc = cds::container;
namespace {
typedef cds::gc::HP HP; typedef cds::gc::DHP DHP;
static int g_level_mode;   // skip-list tower heights: 0 all flat, 1 all tall, 2 pseudo-geometric (deterministic)
struct SimLevel {
    static unsigned int const c_nUpperBound = 32; unsigned state;
    SimLevel() : state(0x9E3779B9u) {}
    unsigned operator()() { if (g_level_mode == 0) return 0; if (g_level_mode == 1) return 5 + (state++ & 3); state ^= state << 13; state ^= state >> 17; state ^= state << 5; unsigned l = 0, x = state; while ((x & 1) && l < 10) { ++l; x >>= 1; } return l; }
};
static const unsigned CAPS_TREE = CAPS_FULL | CAP(EXTRACT_MIN) | CAP(EXTRACT_MAX);
static const unsigned CAPS_BRONSON = CAPS_BASIC | CAP(EXTRACT) | CAP(EXTRACT_MIN) | CAP(EXTRACT_MAX);
typedef Cfg<CAPS_TREE> C_tree; typedef Cfg<CAPS_TREE, false, true, false> C_tree_noiter;

template <class GC, class S, class CFG = C_tree> struct SetMM : SetA<GC, S, CFG> {
    explicit SetMM(const Program& p) { g_level_mode = (int)p.knob("level_mode", 2); this->s.reset(new S()); }
    R extract_min() { return Access<GC>::extract_min(*this->s); }
    R extract_max() { return Access<GC>::extract_max(*this->s); }
};
template <class GC, class M, class CFG = C_tree> struct MapMM : MapA<GC, M, CFG> {
    explicit MapMM(const Program& p) { g_level_mode = (int)p.knob("level_mode", 2); this->s.reset(new M()); }
    R extract_min() { return Access<GC>::extract_min(*this->s); }
    R extract_max() { return Access<GC>::extract_max(*this->s); }
};
template <class B> struct WithConsistency : B {
    explicit WithConsistency(const Program& p) : B(p) {}
    bool consistent(std::string& why) { if (!this->s->check_consistency()) { why = "check_consistency() returned false at quiescence"; return false; } return true; }
};
struct sk_less : cc::skip_list::traits { typedef Less less; typedef cds::atomicity::item_counter item_counter; typedef SimLevel random_level_generator; typedef cc::skip_list::stat<> stat; };
struct sk_cmp : cc::skip_list::traits { typedef Cmp compare; typedef cds::atomicity::item_counter item_counter; typedef SimLevel random_level_generator; };
struct KeyEx { void operator()(long& dst, Item const& src) const { dst = src.key; } };
struct el_set : cc::ellen_bintree::traits { typedef KeyEx key_extractor; typedef Less less; typedef cds::atomicity::item_counter item_counter; typedef cc::ellen_bintree::stat<> stat; };
struct el_map : cc::ellen_bintree::traits { typedef Less less; typedef cds::atomicity::item_counter item_counter; };

// ---- Bronson AVL tree
// Recomputes real subtree heights (the library's own check compares child heights without adding one).  Works on the pointer variant
// of the tree; the value variants derive privately from it, so this file is compiled with -fno-access-control (see Makefile) to reach
// the protected helpers and the private base.
template <class M> struct TrueHeights {
    M* t; explicit TrueHeights(M* tree) : t(tree) {}
    typedef typename M::node_type N;
    int H(N* n) { if (!n) return 0; int l = H(M::child(n, -1, atomics::memory_order_relaxed)), r = H(M::child(n, 1, atomics::memory_order_relaxed)); return 1 + (l > r ? l : r); }
    // The one imbalance the algorithm leaves behind by design (known finding, DESIGN.md 9.2): node n is 2 too tall on the side of a
    // routing child c whose inner grandchild is 1 taller than the outer one, and the double rotation is refused because it would
    // leave the routing node c with a missing child (rebalance_to_right_locked / rebalance_to_left_locked: "(hLL == 0 || hLRL == 0)
    // && !pLeft->is_valued()"); the fall-back rebalance of c finds c itself balanced and stops, so n is never repaired.
    // Known finding (DESIGN.md 9.2): once a removal has turned a node with two children into a routing node, a double rotation that would
    // leave that routing node with a missing child is refused ("(hLL == 0 || hLRL == 0) && !pLeft->is_valued()"), the fall-back finds the
    // routing child balanced and stops, and the parent stays 2 too tall.  Nothing comes back to it: later insertions can grow the
    // imbalance, make ancestors unbalanced as well (their stored heights are stale), re-value the routing node or rotate it away.
    // The quiescent shape therefore says nothing; what can be said soundly is that a history without any successful removal never
    // creates a routing node, so there every node must be strictly balanced.
    bool blocked_by_routing_child(N*, int, int) { return !erased.empty(); }
    std::set<long> erased; bool all_erased = false;
    int height(N* n, bool& balanced, bool& ordered, long lo, long hi) {
        if (!n) return 0;
        long k = (long)n->m_key; if (k <= lo || k >= hi) ordered = false;
        if (!n->is_valued(atomics::memory_order_relaxed) && (!M::child(n, -1, atomics::memory_order_relaxed) || !M::child(n, 1, atomics::memory_order_relaxed))) ++damaged;   // a routing node with fewer than two children must have been unlinked
        int l = height(M::child(n, -1, atomics::memory_order_relaxed), balanced, ordered, lo, k), r = height(M::child(n, 1, atomics::memory_order_relaxed), balanced, ordered, k, hi);
        if (l - r > 1 || r - l > 1) { if (blocked_by_routing_child(n, l, r)) ++blocked; else balanced = false; }
        return 1 + (l > r ? l : r);
    }
    int blocked = 0, damaged = 0; bool concurrent_updates = false;
    void dump(N* n, std::string& out) { if (!n) { out += "-"; return; } char b[64]; snprintf(b, sizeof b, "(%ld%s h%d ", (long)n->m_key, n->is_valued(atomics::memory_order_relaxed) ? "" : "*", (int)n->m_nHeight.load(atomics::memory_order_relaxed)); out += b; dump(M::child(n, -1, atomics::memory_order_relaxed), out); out += " "; dump(M::child(n, 1, atomics::memory_order_relaxed), out); out += ")"; }
    std::string dump() { std::string o; dump(M::child(t->m_pRoot, 1, atomics::memory_order_relaxed), o); return o; }
    bool avl(bool& ordered) { bool b = true; ordered = true; blocked = 0; damaged = 0; erased.clear(); concurrent_updates = false;
        if (g_consistency_ctx) { auto& H = g_consistency_ctx->hist; auto mut = [](const Event& e) { return e.kind == INSERT || e.kind == UPDATE || e.kind == UPSERT_NOINS || e.kind == ERASE || e.kind == EXTRACT || e.kind == EXTRACT_MIN || e.kind == EXTRACT_MAX; };
            for (size_t i = 0; i < H.size() && !concurrent_updates; i++) for (size_t j = i + 1; j < H.size(); j++) if (mut(H[i]) && mut(H[j]) && H[i].thread != H[j].thread && H[i].inv < (H[j].done ? H[j].ret : ~0ULL) && H[j].inv < (H[i].done ? H[i].ret : ~0ULL)) { concurrent_updates = true; break; } }
        if (g_consistency_ctx) for (auto& e : g_consistency_ctx->hist) { if ((e.kind == ERASE || e.kind == EXTRACT) && (!e.done || e.r)) erased.insert(e.a); if ((e.kind == EXTRACT_MIN || e.kind == EXTRACT_MAX) && e.done && e.r) erased.insert(e.r3); if (e.kind == EXTRACT_MIN || e.kind == EXTRACT_MAX || e.kind == CLEAR) { if (!e.done || e.kind == CLEAR) for (long k = 0; k < 64; k++) erased.insert(k); } } height(M::child(t->m_pRoot, 1, atomics::memory_order_relaxed), b, ordered, -(1L << 60), 1L << 60); return b; }
};
template <class Tree, class Chk> bool bronson_consistent(Tree* s, Chk* chk, std::string& why) { bool ordered = true; bool bal = chk->avl(ordered); if (!s->check_consistency() || !ordered) { why = "BronsonAVLTreeMap: search-tree order violated at quiescence"; return false; } if (!bal) { why = std::string(chk->concurrent_updates ? "@avl-imbalance-after-concurrent-updates " : "") + "BronsonAVLTreeMap: AVL balance violated at quiescence" + (chk->concurrent_updates ? " after overlapping updates (a rotation used the stale height of a child that another thread was changing, and that thread had already found 'nothing required' on the not yet rotated parent)" : "") + "; tree (key[* = routing node] stored-height left right): " + chk->dump(); return false; }
        if (chk->damaged) { why = "BronsonAVLTreeMap: a routing node with fewer than two children is still linked at quiescence (it can never be repaired: empty() is wrong, extract_min()/clear() spin on it); tree: " + chk->dump(); return false; }
        if (chk->blocked) { why = "@avl-imbalance-behind-routing-node BronsonAVLTreeMap: at quiescence a node is 2 too tall on the side of a routing child (double rotation refused, never repaired); tree (key[* = routing node] stored-height left right): " + chk->dump(); return false; } return true; }
struct BF { R* r; template <class K, class V> void operator()(K const&, V& v) const { ++r->calls; r->inst = v; } };
template <class M> struct BronA {
    typedef typename SmrOf<typename M::gc>::type Smr; static const unsigned caps = CAPS_BRONSON; static const bool update_replaces = false, ordered = true;
    std::unique_ptr<M> s;
    explicit BronA(const Program&) { s.reset(new M()); }
    R insert(long key, long inst, int form) { R r; if (form == 1) { r.ok = s->insert_with(key, [&r, inst](long const&, long& v) { ++r.calls; v = inst; }); if ((r.ok && r.calls != 1) || (!r.ok && r.calls)) r.calls = -100; } else if (form == 2) r.ok = s->emplace(long(key), inst); else r.ok = s->insert(key, inst); return r; }
    R erase(long key, int form) { R r; if (form == 1) { r.ok = s->erase(key, BF{&r}); if ((r.ok && r.calls != 1) || (!r.ok && r.calls)) r.calls = -100; } else r.ok = s->erase(key); return r; }
    R contains(long key) { R r; r.ok = s->contains(key); return r; }
    R find(long key) { R r; r.ok = s->find(key, BF{&r}); if ((r.ok && r.calls != 1) || (!r.ok && r.calls)) r.calls = -100; return r; }
    R update(long key, long inst, bool allow) { R r; std::pair<bool, bool> p = s->update(key, [&r, inst](bool bNew, long const&, long& v) { ++r.calls; r.inserted = bNew; if (bNew) v = inst; r.inst = v; }, allow); r.ok = p.first; r.inserted = p.second; if ((r.ok && r.calls > 1) || (!r.ok && r.calls)) r.calls = -100; return r; }
    R extract(long key) { R r; auto xp = s->extract(key); if (xp) { r.ok = true; r.inst = *xp; } xp.release(); return r; }
    R get(long) { return R(); }
    R extract_min() { R r; long k = 0; auto xp = s->extract_min_key(k); if (xp) { r.ok = true; r.inst = *xp; r.key = k; } xp.release(); return r; }
    R extract_max() { R r; long k = 0; auto xp = s->extract_max_key(k); if (xp) { r.ok = true; r.inst = *xp; r.key = k; } xp.release(); return r; }
    bool traverse(std::vector<long>&) { return false; }
    long size() { return (long)s->size(); } bool empty() { return s->empty(); }
    bool consistent(std::string& why) {
        // the value variant derives privately from the pointer variant, which holds all of the tree code: check that base (-fno-access-control)
        typedef typename M::base_class B; B* base = (B*)s.get(); /* a C-style cast may convert to a private base */ TrueHeights<B> chk(base);
        return bronson_consistent(s.get(), &chk, why);
    }
    void probes(Ctx& c) { auto const& st = s->statistics(); c.probe("bronson_rotations", (long)(st.m_nRightRotation.get() + st.m_nLeftRotation.get() + st.m_nLeftRightRotation.get() + st.m_nRightLeftRotation.get())); c.probe("bronson_update_retry", (long)st.m_nUpdateRetry.get()); c.probe("bronson_find_retry", (long)st.m_nFindRetry.get()); }
};
// pointer variant: the mapped value is Item*; update replaces the pointer, the disposer frees the old value after a grace period
struct PDisp { void operator()(Item* p) const { delete p; } };
struct BPF { R* r; template <class K> void operator()(K const&, Item& v) const { ++r->calls; r->inst = v.inst; } };
template <class M> struct BronP {
    typedef typename SmrOf<typename M::gc>::type Smr; static const unsigned caps = CAP(INSERT) | CAP(ERASE) | CAP(CONTAINS) | CAP(FIND) | CAP(UPDATE) | CAP(UPSERT_NOINS) | CAP(EXTRACT) | CAP(EXTRACT_MIN) | CAP(EXTRACT_MAX); static const bool update_replaces = true, ordered = true;
    std::unique_ptr<M> s; std::unique_ptr<TrueHeights<M>> chk;
    explicit BronP(const Program&) { s.reset(new M()); chk.reset(new TrueHeights<M>(s.get())); }
    R insert(long key, long inst, int) { R r; Item* v = new Item(key, inst); r.ok = s->insert(key, v); if (!r.ok) delete v; return r; }
    R erase(long key, int form) { R r; if (form == 1) { r.ok = s->erase(key, BPF{&r}); if ((r.ok && r.calls != 1) || (!r.ok && r.calls)) r.calls = -100; } else r.ok = s->erase(key); return r; }
    R contains(long key) { R r; r.ok = s->contains(key); return r; }
    R find(long key) { R r; r.ok = s->find(key, BPF{&r}); if ((r.ok && r.calls != 1) || (!r.ok && r.calls)) r.calls = -100; return r; }
    R update(long key, long inst, bool allow) { R r; Item* v = new Item(key, inst); std::pair<bool, bool> p = s->update(key, v, allow); r.ok = p.first; r.inserted = p.second; r.inst = -1; if (!r.ok) delete v; return r; }
    R extract(long key) { R r; auto xp = s->extract(key); if (xp) { r.ok = true; r.inst = xp->inst; } xp.release(); return r; }
    R get(long) { return R(); }
    R extract_min() { R r; long k = 0; auto xp = s->extract_min_key(k); if (xp) { r.ok = true; r.inst = xp->inst; r.key = k; } xp.release(); return r; }
    R extract_max() { R r; long k = 0; auto xp = s->extract_max_key(k); if (xp) { r.ok = true; r.inst = xp->inst; r.key = k; } xp.release(); return r; }
    bool traverse(std::vector<long>&) { return false; }
    long size() { return (long)s->size(); } bool empty() { return s->empty(); }
    bool consistent(std::string& why) { return bronson_consistent(s.get(), chk.get(), why); }
    void probes(Ctx&) {}
};
struct br_inj : cc::bronson_avltree::traits { typedef Less less; typedef cds::atomicity::item_counter item_counter; typedef cc::bronson_avltree::stat<> stat; };
typedef cds::memory::vyukov_queue_pool<std::mutex> lock_pool;
struct br_pool : cc::bronson_avltree::traits { typedef Cmp compare; typedef cds::atomicity::item_counter item_counter; typedef cc::bronson_avltree::stat<> stat; typedef cds::sync::pool_monitor<lock_pool> sync_monitor; };
struct br_ptr : cc::bronson_avltree::traits { typedef Less less; typedef cds::atomicity::item_counter item_counter; typedef PDisp disposer; };

void gen_skip(Rng& r, Program& p, int tier, const std::string&) { GenCfg g; g.caps = CAPS_TREE; g.min_hazards = 70; g.nkeys_hot = 4; gen_program(r, p, tier, g); p.set("level_mode", r.below(3)); }
void gen_ellen(Rng& r, Program& p, int tier, const std::string&) { GenCfg g; g.caps = CAPS_TREE; g.min_hazards = 12; g.nkeys_hot = 4; gen_program(r, p, tier, g); }
// "readers during rotations" shape (a quarter of the concurrent Bronson programs): one thread inserts absent keys (rotations), the
// others look up keys that are present for the whole run, so any miss is an immediate linearizability violation
static void readers_during_rotations(Rng& r, Program& p) {
    const std::string& prop = current_prop(); if (prop == "C20" || prop == "C17" || p.threads.size() < 2 || !r.chance(250)) return;
    int nkeys = (int)p.knob("keys"); long mask = p.knob("prefill_mask"); p.set("pre_erase_mask", 0);
    std::vector<long> present, absent; for (int k = 1; k <= nkeys; k++) ((mask >> (k - 1)) & 1 ? present : absent).push_back(k);
    if (present.size() < 2 || absent.size() < 2) return;
    for (auto& t : p.threads) { t.ops.clear(); t.start_after = -1; } p.next_id = 0;
    for (size_t i = 0; i < absent.size() && i < 7; i++) p.add(0, i % 3 == 2 ? UPDATE : INSERT, absent[(i * 3 + r.below(2)) % absent.size()], 0, r.below(3));
    for (size_t t = 1; t < p.threads.size(); t++) for (int k = 0; k < 6; k++) p.add((int)t, r.chance(500) ? CONTAINS : FIND, present[r.below((int)present.size())]);
}
void gen_bron(Rng& r, Program& p, int tier, const std::string&) { GenCfg g; g.caps = CAPS_BRONSON; g.nkeys_hot = r.pick({5, 5, 8, 10}); g.nkeys_cold = 3; g.max_ops = r.pick({6, 6, 8}); gen_program(r, p, tier, g); p.set("prefill_order", r.pick({0, 1, 2 + r.below(1000), 2 + r.below(1000)})); readers_during_rotations(r, p); }   // up to 13 keys: deeper trees, single and double rotations while readers traverse
void gen_bronp(Rng& r, Program& p, int tier, const std::string&) { GenCfg g; g.caps = CAPS_BRONSON; g.nkeys_hot = r.pick({5, 5, 8, 10}); g.nkeys_cold = 3; g.max_ops = r.pick({6, 6, 8}); g.insert_forms = 1; gen_program(r, p, tier, g); p.set("prefill_order", r.pick({0, 1, 2 + r.below(1000), 2 + r.below(1000)})); readers_during_rotations(r, p); }

#define COMPT(f) "real: " f ", SMR; simulated: scheduler + faults, forced skip-list tower heights / eager reclamation; oracle: linearizability vs ordered key->instance map, relaxed interval oracle for extract_min/max, quiescent traversal / consistency checks / true AVL heights"
#define SUBJ(var, NAME, T, GEN, F) typedef T T_##var; SM_SUBJECT(var, NAME, "C15,C18,C20", T_##var, GEN, COMPT(F))
typedef SetMM<HP, cc::SkipListSet<HP, Item, sk_less>> K1; SUBJ(k1, "tree.SkipListSet_HP", K1, gen_skip, "cds/container/impl/skip_list_set.h cds/intrusive/impl/skip_list.h")
typedef SetMM<DHP, cc::SkipListSet<DHP, Item, sk_cmp>> K2; SUBJ(k2, "tree.SkipListSet_DHP", K2, gen_skip, "cds/container/impl/skip_list_set.h cds/intrusive/impl/skip_list.h")
typedef SetMM<RCU_GPB, cc::SkipListSet<RCU_GPB, Item, sk_less>> K3; SUBJ(k3, "tree.SkipListSet_RCU_gpb", K3, gen_skip, "cds/container/skip_list_set_rcu.h cds/intrusive/skip_list_rcu.h")
typedef SetMM<RCU_SHB, cc::SkipListSet<RCU_SHB, Item, sk_cmp>> K4; SUBJ(k4, "tree.SkipListSet_RCU_shb", K4, gen_skip, "cds/container/skip_list_set_rcu.h cds/intrusive/skip_list_rcu.h")
typedef MapMM<HP, cc::SkipListMap<HP, long, long, sk_less>> K5; SUBJ(k5, "tree.SkipListMap_HP", K5, gen_skip, "cds/container/impl/skip_list_map.h")
typedef MapMM<RCU_GPI, cc::SkipListMap<RCU_GPI, long, long, sk_less>> K6; SUBJ(k6, "tree.SkipListMap_RCU_gpi", K6, gen_skip, "cds/container/skip_list_map_rcu.h")
typedef WithConsistency<SetMM<HP, cc::EllenBinTreeSet<HP, long, Item, el_set>, C_tree_noiter>> E1; SUBJ(e1, "tree.EllenBinTreeSet_HP", E1, gen_ellen, "cds/container/impl/ellen_bintree_set.h cds/intrusive/impl/ellen_bintree.h")
typedef WithConsistency<SetMM<DHP, cc::EllenBinTreeSet<DHP, long, Item, el_set>, C_tree_noiter>> E2; SUBJ(e2, "tree.EllenBinTreeSet_DHP", E2, gen_ellen, "cds/container/impl/ellen_bintree_set.h cds/intrusive/impl/ellen_bintree.h")
typedef WithConsistency<SetMM<RCU_GPB, cc::EllenBinTreeSet<RCU_GPB, long, Item, el_set>, C_tree_noiter>> E3; SUBJ(e3, "tree.EllenBinTreeSet_RCU_gpb", E3, gen_ellen, "cds/container/ellen_bintree_set_rcu.h cds/intrusive/ellen_bintree_rcu.h")
typedef WithConsistency<MapMM<HP, cc::EllenBinTreeMap<HP, long, long, el_map>, C_tree_noiter>> E4; SUBJ(e4, "tree.EllenBinTreeMap_HP", E4, gen_ellen, "cds/container/impl/ellen_bintree_map.h")
typedef WithConsistency<MapMM<RCU_GPT, cc::EllenBinTreeMap<RCU_GPT, long, long, el_map>, C_tree_noiter>> E5; SUBJ(e5, "tree.EllenBinTreeMap_RCU_gpt", E5, gen_ellen, "cds/container/ellen_bintree_map_rcu.h")
typedef BronA<cc::BronsonAVLTreeMap<RCU_GPB, long, long, br_inj>> B1; SUBJ(b1, "tree.BronsonAVLTreeMap_gpb_injecting", B1, gen_bron, "cds/container/bronson_avltree_map_rcu.h impl/bronson_avltree_map_rcu.h details/bronson_avltree_base.h cds/sync/injecting_monitor.h")
typedef BronA<cc::BronsonAVLTreeMap<RCU_GPI, long, long, br_pool>> B2; SUBJ(b2, "tree.BronsonAVLTreeMap_gpi_pool_monitor", B2, gen_bron, "cds/container/bronson_avltree_map_rcu.h cds/sync/pool_monitor.h cds/memory/vyukov_queue_pool.h")
typedef BronA<cc::BronsonAVLTreeMap<RCU_SHB, long, long, br_inj>> B3; SUBJ(b3, "tree.BronsonAVLTreeMap_shb_injecting", B3, gen_bron, "cds/container/bronson_avltree_map_rcu.h")
typedef BronP<cc::BronsonAVLTreeMap<RCU_GPB, long, Item*, br_ptr>> B4; SUBJ(b4, "tree.BronsonAVLTreeMap_gpb_pointer", B4, gen_bronp, "cds/container/impl/bronson_avltree_map_rcu.h (T* specialisation)")
} // namespace
