// C16 / C17 (part): StripedSet / StripedMap — striping and refinable policies over every bucket adapter, with resizing
// policies whose thresholds (1-2) make a resize interleave with almost every operation.
#include <cds/container/striped_set/std_list.h>
#include <cds/container/striped_set/std_vector.h>
#include <cds/container/striped_set/std_set.h>
#include <cds/container/striped_set/std_hash_set.h>
#include <cds/container/striped_set/boost_list.h>
#include <cds/container/striped_set/boost_slist.h>
#include <cds/container/striped_set/boost_vector.h>
#include <cds/container/striped_set/boost_stable_vector.h>
#include <cds/container/striped_set/boost_set.h>
#include <cds/container/striped_set/boost_flat_set.h>
#include <cds/container/striped_set/boost_unordered_set.h>
#include <cds/container/striped_set.h>
#include <cds/container/striped_map/std_list.h>
#include <cds/container/striped_map/std_map.h>
#include <cds/container/striped_map/std_hash_map.h>
#include <cds/container/striped_map/boost_flat_map.h>
#include <cds/container/striped_map/boost_slist.h>
#include <cds/container/striped_map.h>
#include "setmap_common.h"

using namespace smc;
namespace cc = cds::container; namespace ss = cds::container::striped_set;
namespace {
typedef Cfg<CAPS_BASIC, false, false, false> C_lock;
template <class S> struct StSet : SetA<cds::gc::nogc, S, C_lock> { static const bool exclusive_functors = true; explicit StSet(const Program& p) { this->s.reset(new S((size_t)p.knob("capacity", 2))); } };
template <class M> struct StMap : MapA<cds::gc::nogc, M, C_lock> { static const bool exclusive_functors = true; explicit StMap(const Program& p) { this->s.reset(new M((size_t)p.knob("capacity", 2))); } };
// single_bucket_size_threshold doubles the table on every insert into an over-threshold bucket: degenerate-hash programs are kept short
void gen(Rng& r, Program& p, int tier, const std::string&) {
    GenCfg g; g.caps = CAPS_BASIC; g.nkeys_hot = 5; g.nkeys_cold = 3; g.max_ops = 5; g.hash_modes = 4; gen_program(r, p, tier, g); p.set("capacity", r.pick({1, 2, 2, 4}));
}
typedef ss::striping<> striping; typedef ss::refinable<> refinable; typedef ss::rational_load_factor_resizing<3, 2> rational32;
#define OPTS(POLICY, RESIZE) cds::opt::hash<Hash>, cds::opt::less<Less>, cds::opt::mutex_policy<POLICY>, cds::opt::resizing_policy<RESIZE>
#define COMPS(f) "real: cds/container/striped_set.h striped_map.h cds/intrusive/striped_set.h striping_policy.h resizing_policy.h cds/sync/lock_array.h + bucket adapter " f "; simulated: scheduler, std::mutex / recursive_mutex / spin locks; knobs: initial capacity 1-4, resize thresholds 1-2, degenerate hashes; oracle: linearizability vs key->instance map, quiescent find of every key, size()"
#define SS(var, NAME, T, F) typedef StSet<T> T_##var; SM_SUBJECT(var, NAME, "C16,C17,C20", T_##var, gen, COMPS(F))
#define SMAP(var, NAME, T, F) typedef StMap<T> T_##var; SM_SUBJECT(var, NAME, "C16,C17,C20", T_##var, gen, COMPS(F))
typedef cc::StripedSet<std::list<Item>, OPTS(striping, ss::load_factor_resizing<1>)> S1; SS(s1, "lockset.StripedSet_std_list_striping", S1, "std_list.h")
typedef cc::StripedSet<std::vector<Item>, OPTS(refinable, ss::single_bucket_size_threshold<2>)> S2; SS(s2, "lockset.StripedSet_std_vector_refinable", S2, "std_vector.h")
typedef cc::StripedSet<std::set<Item, Less>, OPTS(striping, ss::single_bucket_size_threshold<1>)> S3; SS(s3, "lockset.StripedSet_std_set_striping", S3, "std_set.h")
typedef cc::StripedSet<std::unordered_set<Item, Hash, Equal>, OPTS(refinable, ss::load_factor_resizing<2>)> S4; SS(s4, "lockset.StripedSet_std_unordered_set_refinable", S4, "std_hash_set.h")
typedef cc::StripedSet<boost::container::list<Item>, OPTS(refinable, ss::load_factor_resizing<1>)> S5; SS(s5, "lockset.StripedSet_boost_list_refinable", S5, "boost_list.h")
typedef cc::StripedSet<boost::container::slist<Item>, OPTS(striping, ss::single_bucket_size_threshold<2>)> S6; SS(s6, "lockset.StripedSet_boost_slist_striping", S6, "boost_slist.h")
typedef cc::StripedSet<boost::container::vector<Item>, OPTS(striping, rational32)> S7; SS(s7, "lockset.StripedSet_boost_vector_striping", S7, "boost_vector.h")
typedef cc::StripedSet<boost::container::stable_vector<Item>, OPTS(refinable, ss::single_bucket_size_threshold<1>)> S8; SS(s8, "lockset.StripedSet_boost_stable_vector_refinable", S8, "boost_stable_vector.h")
typedef cc::StripedSet<boost::container::set<Item, Less>, OPTS(refinable, ss::load_factor_resizing<1>)> S9; SS(s9, "lockset.StripedSet_boost_set_refinable", S9, "boost_set.h")
typedef cc::StripedSet<boost::container::flat_set<Item, Less>, OPTS(striping, ss::load_factor_resizing<1>)> S10; SS(s10, "lockset.StripedSet_boost_flat_set_striping", S10, "boost_flat_set.h")
typedef cc::StripedSet<boost::unordered_set<Item, Hash, Equal>, OPTS(striping, ss::single_bucket_size_threshold<2>)> S11; SS(s11, "lockset.StripedSet_boost_unordered_set_striping", S11, "boost_unordered_set.h")
typedef cc::StripedMap<std::list<std::pair<long const, long>>, OPTS(striping, ss::load_factor_resizing<1>)> M1; SMAP(m1, "lockset.StripedMap_std_list_striping", M1, "striped_map/std_list.h")
typedef cc::StripedMap<std::map<long, long, Less>, OPTS(refinable, ss::single_bucket_size_threshold<1>)> M2; SMAP(m2, "lockset.StripedMap_std_map_refinable", M2, "striped_map/std_map.h")
typedef cc::StripedMap<std::unordered_map<long, long, Hash, Equal>, OPTS(striping, ss::load_factor_resizing<2>)> M3; SMAP(m3, "lockset.StripedMap_std_unordered_map_striping", M3, "striped_map/std_hash_map.h")
typedef cc::StripedMap<boost::container::flat_map<long, long, Less>, OPTS(refinable, ss::load_factor_resizing<1>)> M4; SMAP(m4, "lockset.StripedMap_boost_flat_map_refinable", M4, "striped_map/boost_flat_map.h")
typedef cc::StripedMap<boost::container::slist<std::pair<long const, long>>, OPTS(striping, ss::single_bucket_size_threshold<2>)> M5; SMAP(m5, "lockset.StripedMap_boost_slist_striping", M5, "striped_map/boost_slist.h")
} // namespace
