// C14 (part): MichaelHashSet / MichaelHashMap over Michael, Lazy and Iterable lists, HP / DHP / RCU.
#include <cds/container/michael_list_hp.h>
#include <cds/container/michael_list_dhp.h>
#include <cds/container/michael_list_rcu.h>
#include <cds/container/lazy_list_hp.h>
#include <cds/container/lazy_list_rcu.h>
#include <cds/container/iterable_list_hp.h>
#include <cds/container/iterable_list_dhp.h>
#include <cds/container/michael_kvlist_hp.h>
#include <cds/container/michael_kvlist_rcu.h>
#include <cds/container/lazy_kvlist_dhp.h>
#include <cds/container/iterable_kvlist_hp.h>
#include <cds/container/michael_set.h>
#include <cds/container/michael_set_rcu.h>
#include <cds/container/michael_map.h>
#include <cds/container/michael_map_rcu.h>
#include "setmap_common.h"

using namespace smc;
namespace cc = cds::container;
namespace {
typedef cds::gc::HP HP; typedef cds::gc::DHP DHP;
struct ml_less : cc::michael_list::traits { typedef Less less; };
struct ll_cmp : cc::lazy_list::traits { typedef Cmp compare; };
struct il_less : cc::iterable_list::traits { typedef Less less; };
struct ms_traits : cc::michael_set::traits { typedef Hash hash; typedef cds::atomicity::item_counter item_counter; };
struct mm_traits : cc::michael_map::traits { typedef Hash hash; typedef cds::atomicity::item_counter item_counter; };

template <class GC, class S, class CFG> struct HSet : SetA<GC, S, CFG> { explicit HSet(const Program& p) { this->s.reset(new S((size_t)p.knob("max_items", 4), (size_t)p.knob("load_factor", 1))); } };
template <class GC, class S, class CFG> struct HMap : MapA<GC, S, CFG> { explicit HMap(const Program& p) { this->s.reset(new S((size_t)p.knob("max_items", 4), (size_t)p.knob("load_factor", 1))); } };
typedef Cfg<CAPS_FULL, false, false> C_full; typedef Cfg<CAPS_FULL, true, false> C_repl; typedef Cfg<CAPS_FULL, false, false, true, true, true> C_lazy_rcu;
void gen(Rng& r, Program& p, int tier, const std::string&) { GenCfg g; g.min_hazards = 8; g.hash_modes = 4; g.nkeys_hot = 4; gen_program(r, p, tier, g); p.set("max_items", r.pick({1, 2, 4, 8})); p.set("load_factor", r.pick({1, 1, 2})); }
#define COMPH(f) "real: " f " cds/intrusive/michael_set.h + the ordered-list implementation, SMR; simulated: scheduler, faults as for lists, degenerate hash functions (constant, one-bit) chosen per run; oracle: linearizability vs key->instance map, quiescent traversal (exactly once), size()"
#define HS(var, NAME, GC, T, CFG, F) typedef HSet<GC, T, CFG> T_##var; SM_SUBJECT(var, NAME, "C14,C20", T_##var, gen, COMPH(F))
#define HM(var, NAME, GC, T, CFG, F) typedef HMap<GC, T, CFG> T_##var; SM_SUBJECT(var, NAME, "C14,C20", T_##var, gen, COMPH(F))
typedef cc::MichaelHashSet<HP, cc::MichaelList<HP, Item, ml_less>, ms_traits> S1; HS(s1, "hash.MichaelSet_MichaelList_HP", HP, S1, C_full, "cds/container/michael_set.h")
typedef cc::MichaelHashSet<DHP, cc::MichaelList<DHP, Item, ml_less>, ms_traits> S2; HS(s2, "hash.MichaelSet_MichaelList_DHP", DHP, S2, C_full, "cds/container/michael_set.h")
typedef cc::MichaelHashSet<RCU_GPB, cc::MichaelList<RCU_GPB, Item, ml_less>, ms_traits> S3; HS(s3, "hash.MichaelSet_MichaelList_RCU_gpb", RCU_GPB, S3, C_full, "cds/container/michael_set_rcu.h")
typedef cc::MichaelHashSet<HP, cc::LazyList<HP, Item, ll_cmp>, ms_traits> S4; HS(s4, "hash.MichaelSet_LazyList_HP", HP, S4, C_full, "cds/container/michael_set.h")
typedef cc::MichaelHashSet<RCU_SHB, cc::LazyList<RCU_SHB, Item, ll_cmp>, ms_traits> S5; HS(s5, "hash.MichaelSet_LazyList_RCU_shb", RCU_SHB, S5, C_lazy_rcu, "cds/container/michael_set_rcu.h")
typedef cc::MichaelHashSet<HP, cc::IterableList<HP, Item, il_less>, ms_traits> S6; HS(s6, "hash.MichaelSet_IterableList_HP", HP, S6, C_repl, "cds/container/michael_set.h")
typedef cc::MichaelHashSet<DHP, cc::IterableList<DHP, Item, il_less>, ms_traits> S7; HS(s7, "hash.MichaelSet_IterableList_DHP", DHP, S7, C_repl, "cds/container/michael_set.h")
typedef cc::MichaelHashMap<HP, cc::MichaelKVList<HP, long, long, ml_less>, mm_traits> M1; HM(m1, "hash.MichaelMap_MichaelKVList_HP", HP, M1, C_full, "cds/container/michael_map.h")
typedef cc::MichaelHashMap<RCU_GPT, cc::MichaelKVList<RCU_GPT, long, long, ml_less>, mm_traits> M2; HM(m2, "hash.MichaelMap_MichaelKVList_RCU_gpt", RCU_GPT, M2, C_full, "cds/container/michael_map_rcu.h")
typedef cc::MichaelHashMap<DHP, cc::LazyKVList<DHP, long, long, ll_cmp>, mm_traits> M3; HM(m3, "hash.MichaelMap_LazyKVList_DHP", DHP, M3, C_full, "cds/container/michael_map.h")
typedef cc::MichaelHashMap<HP, cc::IterableKVList<HP, long, long, il_less>, mm_traits> M4; HM(m4, "hash.MichaelMap_IterableKVList_HP", HP, M4, C_repl, "cds/container/michael_map.h")
} // namespace
