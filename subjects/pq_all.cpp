// C11: FCPriorityQueue (linearizable max-priority queue) and MSPriorityQueue (conservation + push-failure rule in mixed
// histories: bag with capacity; full linearizability to a bounded max-priority queue in phased histories).
#include <cds/container/fcpriority_queue.h>
#include <cds/container/mspriority_queue.h>
#include <cds/intrusive/mspriority_queue.h>
#include <boost/container/stable_vector.hpp>
#include <boost/container/deque.hpp>
#include <deque>
#include <mutex>
#include <queue>
#include <vector>
#include "seq_common.h"

using namespace seqc;
namespace cc = cds::container; namespace ci = cds::intrusive; namespace fc = cds::algo::flat_combining;

namespace {
struct Base { long model_override(const Program&) { return 0; } std::function<void(Ctx&)> post_check() { return std::function<void(Ctx&)>(); } static const bool pop_empty_unconstrained = false; long capacity() { return -1; } bool push_front(long, int) { return false; } bool pop_back(long&, int) { return false; } };
struct PrioLess { bool operator()(long a, long b) const { return a / 1000 < b / 1000; } };   // priority = value / 1000; equal priorities allowed

template <class Q> struct FcP : Base {
    typedef SmrNone Smr; static const SeqModel::Kind kind = SeqModel::PQMAX;
    Q q; explicit FcP(const Program& p) : q((unsigned)p.knob("fc_compact", 1), (unsigned)p.knob("fc_pass", 1)) {}
    bool push(long v, int form) { if (form == 1) { long t = v; return q.push(std::move(t)); } return q.push(v); }
    bool pop(long& v, int) { return q.pop(v); }
    void probes(Ctx& c) { auto const& s = q.statistics(); c.probe("fc_combining_passes", (long)s.m_nCombiningCount.get()); c.probe("fc_pubrecords_deleted", (long)s.m_nPubRecordDeleted.get()); }
};
template <class Wait> struct fcp_traits : cc::fcpqueue::traits { typedef Wait wait_strategy; typedef cc::fcpqueue::stat<> stat; };

// MSPriorityQueue: model chosen per program (phased => bounded max-priority queue, mixed => bag with capacity, pop-empty unconstrained)
template <class Q> struct MsP : Base {
    typedef SmrNone Smr; static const SeqModel::Kind kind = SeqModel::BAG; static const bool pop_empty_unconstrained = true;
    Q q; explicit MsP(const Program& p) : q((size_t)p.knob("capacity", 4)) {}
    long capacity() { return (long)q.capacity(); }
    long model_override(const Program& p) { return p.knob("phased") ? (long)SeqModel::PQMAX + 1 : 0; }
    bool push(long v, int form) { switch (form) { case 1: return q.emplace(v); case 2: return q.push_with([v](long& d) { d = v; }); default: return q.push(v); } }
    bool pop(long& v, int form) { if (form == 1) return q.pop_with([&v](long& s) { v = s; }); return q.pop(v); }
    void probes(Ctx& c) { auto const& s = q.statistics(); c.probe("mspq_push_heapify_swaps", (long)s.m_nPushHeapifySwapCount.get()); c.probe("mspq_push_failed", (long)s.m_nPushFailCount.get()); c.probe("mspq_pop_failed", (long)s.m_nPopFailCount.get()); }
};
struct mspq_spin : cc::mspriority_queue::traits { typedef PrioLess less; typedef cc::mspriority_queue::stat<> stat; };
struct mspq_mutex : cc::mspriority_queue::traits { typedef PrioLess less; typedef std::mutex lock_type; typedef cc::mspriority_queue::stat<> stat; };
struct mspq_static : cc::mspriority_queue::traits { typedef PrioLess less; typedef cds::opt::v::initialized_static_buffer<char, 8> buffer; typedef cc::mspriority_queue::stat<> stat; };

struct INode { long v; };
struct INodeLess { bool operator()(INode const& a, INode const& b) const { return a.v / 1000 < b.v / 1000; } };
struct imspq : ci::mspriority_queue::traits { typedef INodeLess less; typedef ci::mspriority_queue::stat<> stat; };
template <class Q> struct MsI : Base {
    typedef SmrNone Smr; static const SeqModel::Kind kind = SeqModel::BAG; static const bool pop_empty_unconstrained = true;
    Q q; explicit MsI(const Program& p) : q((size_t)p.knob("capacity", 4)) {}
    ~MsI() { while (INode* n = q.pop()) delete n; }
    long capacity() { return (long)q.capacity(); }
    long model_override(const Program& p) { return p.knob("phased") ? (long)SeqModel::PQMAX + 1 : 0; }
    bool push(long v, int) { INode* n = new INode(); n->v = v; if (q.push(*n)) return true; delete n; return false; }
    bool pop(long& v, int) { INode* n = q.pop(); if (!n) return false; v = n->v; delete n; return true; }
    void probes(Ctx& c) { auto const& s = q.statistics(); c.probe("mspq_push_heapify_swaps", (long)s.m_nPushHeapifySwapCount.get()); c.probe("mspq_push_failed", (long)s.m_nPushFailCount.get()); }
};

void gen_fc(Rng& r, Program& p, int tier, const std::string&) { GenCfg g; g.prio = true; g.push_forms = 2; g.max_threads_quick = 4; g.push_permille = 550; gen_program(r, p, tier, g); p.set("fc_compact", r.pick({1, 1, 2, 4})); p.set("fc_pass", r.range(1, 3)); }
void gen_ms(Rng& r, Program& p, int tier, const std::string&) {
    int cap = r.pick({1, 2, 3, 4, 5, 7, 8, 16}); p.set("capacity", cap); p.set("eager", 0);
    bool phased = r.chance(400); p.set("phased", phased);
    int nth = r.range(2, tier ? 4 : 3); p.threads.resize(nth);
    p.set("prefill", phased ? 0 : r.below(3));
    if (!phased) {
        int total = 0;
        for (int t = 0; t < nth; t++) { int nops = r.range(2, 6); int bias = r.pick({500, 650, 800}); for (int k = 0; k < nops && total < 16; k++, total++) { bool push = r.chance(bias); p.add(t, push ? PUSH : POP, push ? (long)r.below(4) * 1000 + (t + 1) * 100 + k : 0, r.below(push ? 3 : 2)); } }
    } else {
        int phases = r.range(2, 3), bid = 1;
        for (int ph = 0; ph < phases; ph++) {
            bool push = (ph % 2) == 0;
            for (int t = 0; t < nth; t++) { int n = r.range(1, 3); for (int k = 0; k < n; k++) p.add(t, push ? PUSH : POP, push ? (long)r.below(4) * 1000 + (t + 1) * 100 + ph * 10 + k : 0, r.below(push ? 3 : 2)); }
            for (int t = 0; t < nth; t++) p.add(t, BARRIER, bid, nth);
            ++bid;
        }
    }
}
#define COMPP(f) "real: " f "; simulated: scheduler, spin locks / std::mutex, stalls; oracle: linearizability vs bounded max-priority queue (phased programs, simulator barrier between phases) or vs bag with capacity()=what the container reports (mixed programs), incl. quiescent drain"
typedef FcP<cc::FCPriorityQueue<long, std::priority_queue<long, std::vector<long>, PrioLess>, fcp_traits<fc::wait_strategy::backoff<>>>> A1; SEQ_SUBJECT(p1, "pq.FCPriorityQueue_vector", "C11", A1, gen_fc, "real: cds/container/fcpriority_queue.h cds/algo/flat_combining; simulated: scheduler, sleeps/time-outs; oracle: linearizability vs max-priority multiset (any maximal element may be returned)")
typedef FcP<cc::FCPriorityQueue<long, std::priority_queue<long, std::deque<long>, PrioLess>, fcp_traits<fc::wait_strategy::single_mutex_single_condvar<2>>>> A2; SEQ_SUBJECT(p2, "pq.FCPriorityQueue_deque_smsc", "C11", A2, gen_fc, "real: cds/container/fcpriority_queue.h cds/algo/flat_combining; simulated: scheduler, mutex/condvar; oracle: linearizability vs max-priority multiset")
typedef FcP<cc::FCPriorityQueue<long, std::priority_queue<long, boost::container::stable_vector<long>, PrioLess>, fcp_traits<fc::wait_strategy::multi_mutex_multi_condvar<2>>>> A3; SEQ_SUBJECT(p3, "pq.FCPriorityQueue_stable_vector_mmmc", "C11", A3, gen_fc, "real: cds/container/fcpriority_queue.h cds/algo/flat_combining; simulated: scheduler, mutex/condvar; oracle: linearizability vs max-priority multiset")
typedef MsP<cc::MSPriorityQueue<long, mspq_spin>> M1; SEQ_SUBJECT(m1, "pq.MSPriorityQueue_spin", "C11", M1, gen_ms, COMPP("cds/container/mspriority_queue.h cds/intrusive/mspriority_queue.h cds/details/bit_reverse_counter.h"))
typedef MsP<cc::MSPriorityQueue<long, mspq_mutex>> M2; SEQ_SUBJECT(m2, "pq.MSPriorityQueue_mutex", "C11", M2, gen_ms, COMPP("cds/container/mspriority_queue.h (std::mutex)"))
typedef MsP<cc::MSPriorityQueue<long, mspq_static>> M3; SEQ_SUBJECT(m3, "pq.MSPriorityQueue_static8", "C11", M3, gen_ms, COMPP("cds/container/mspriority_queue.h (static buffer)"))
typedef MsI<ci::MSPriorityQueue<INode, imspq>> M4; SEQ_SUBJECT(m4, "pq.iMSPriorityQueue", "C11", M4, gen_ms, COMPP("cds/intrusive/mspriority_queue.h"))
} // namespace
