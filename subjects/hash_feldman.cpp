// C14 (part): FeldmanHashSet / FeldmanHashMap (HP, DHP, RCU) with minimal head/array bit widths and hashes that share
// long prefixes so that array nodes are expanded during the concurrent phase.
#include <cds/container/feldman_hashset_hp.h>
#include <cds/container/feldman_hashset_dhp.h>
#include <cds/container/feldman_hashset_rcu.h>
#include <cds/container/feldman_hashmap_hp.h>
#include <cds/container/feldman_hashmap_dhp.h>
#include <cds/container/feldman_hashmap_rcu.h>
#include "setmap_common.h"

using namespace smc;
namespace cc = cds::container;
namespace {
typedef cds::gc::HP HP; typedef cds::gc::DHP DHP;
// unique hash per key; mode 4: keys differ only in the highest byte (long shared low prefix), mode 5: only in the lowest bits
inline size_t fhash(long k) { return g_hash_mode == 5 ? (size_t)k : g_hash_mode == 6 ? ((size_t)k << 30) | 0x15555555u : ((size_t)k << 56) | 0x00AAAAAAAAAAAAAAULL; }
struct FItem { size_t hash; long key; long inst; FItem() : hash(0), key(0), inst(-1) {} FItem(long k, long i) : hash(fhash(k)), key(k), inst(i) {} };
inline long key_of(FItem const& i) { return i.key; }
inline long inst_of(FItem const& i) { return i.inst; }
struct faccessor { size_t const& operator()(FItem const& i) const { return i.hash; } };
struct fs_traits : cc::feldman_hashset::traits { typedef faccessor hash_accessor; typedef cds::atomicity::item_counter item_counter; typedef cc::feldman_hashset::stat<> stat; };
struct fhasher { size_t operator()(long k) const { return fhash(k); } };
struct fm_traits : cc::feldman_hashmap::traits { typedef fhasher hash; typedef cds::atomicity::item_counter item_counter; typedef cc::feldman_hashmap::stat<> stat; };

struct FF { R* r; template <class V> void operator()(V& item) const { ++r->calls; r->inst = item.inst; } };
struct FU { R* r; void operator()(FItem& cur, FItem* old) const { ++r->calls; r->inserted = (old == nullptr); r->inst = old ? old->inst : cur.inst; } };
template <class GC> struct FAccess {
    template <class S> static R extract(S& s, size_t h) { R r; auto gp = s.extract(h); if (gp) { r.ok = true; r.inst = gp->inst; } return r; }
    template <class S> static R get(S& s, size_t h) { R r; auto gp = s.get(h); if (gp) { r.ok = true; dsim::point(dsim::K_USER); r.inst = gp->inst; } return r; }
};
template <class RCU> struct FAccess<cds::urcu::gc<RCU>> {
    template <class S> static R extract(S& s, size_t h) { R r; auto xp = s.extract(h); if (xp) { r.ok = true; r.inst = xp->inst; } xp.release(); return r; }
    template <class S> static R get(S& s, size_t h) { R r; { typename S::rcu_lock l; auto p = s.get(h); if (p) { r.ok = true; dsim::point(dsim::K_USER); r.inst = p->inst; } } return r; }
};
template <class S> void feld_probes(Ctx& c, S& s) { auto const& st = s.statistics(); c.probe("feldman_array_nodes_expanded", (long)st.m_nExpandNodeSuccess.get()); c.probe("feldman_expand_failed", (long)st.m_nExpandNodeFailed.get()); c.probe("feldman_slot_converting", (long)st.m_nSlotConverting.get()); c.probe("feldman_slot_changed", (long)st.m_nSlotChanged.get()); }

template <class GC, class S> struct FSet {
    typedef typename SmrOf<GC>::type Smr; static const unsigned caps = CAPS_FULL; static const bool update_replaces = true, ordered = false;
    std::unique_ptr<S> s;
    explicit FSet(const Program& p) { s.reset(new S((size_t)p.knob("head_bits", 2), (size_t)p.knob("array_bits", 2))); }
    R insert(long key, long inst, int form) { R r; FItem it(key, inst); if (form == 1) { r.ok = s->insert(it, FF{&r}); if ((r.ok && r.calls != 1) || (!r.ok && r.calls)) r.calls = -100; r.inst = -1; } else if (form == 2) r.ok = s->emplace(key, inst); else r.ok = s->insert(it); return r; }
    R erase(long key, int form) { R r; size_t h = fhash(key); if (form == 1) { r.ok = s->erase(h, FF{&r}); if ((r.ok && r.calls != 1) || (!r.ok && r.calls)) r.calls = -100; } else r.ok = s->erase(h); return r; }
    R contains(long key) { R r; r.ok = s->contains(fhash(key)); return r; }
    R find(long key) { R r; r.ok = s->find(fhash(key), FF{&r}); if ((r.ok && r.calls != 1) || (!r.ok && r.calls)) r.calls = -100; return r; }
    R update(long key, long inst, bool allow) { R r; FItem it(key, inst); std::pair<bool, bool> p = s->update(it, FU{&r}, allow); r.ok = p.first; r.inserted = p.second; if ((r.ok && r.calls > 1) || (!r.ok && r.calls)) r.calls = -100; return r; }
    R extract(long key) { return FAccess<GC>::extract(*s, fhash(key)); }
    R get(long key) { return FAccess<GC>::get(*s, fhash(key)); }
    R extract_min() { return R(); } R extract_max() { return R(); }
    bool traverse(std::vector<long>& out) { trav(out, std::integral_constant<bool, std::is_same<GC, HP>::value || std::is_same<GC, DHP>::value>()); return true; }
    void trav(std::vector<long>& out, std::true_type) { for (auto it = s->begin(); it != s->end(); ++it) out.push_back(it->key); }
    void trav(std::vector<long>& out, std::false_type) { typename S::rcu_lock l; for (auto it = s->begin(); it != s->end(); ++it) out.push_back(it->key); }
    long size() { return (long)s->size(); } bool empty() { return s->empty(); } bool consistent(std::string&) { return true; }
    void probes(Ctx& c) { feld_probes(c, *s); }
};
template <class GC, class M> struct FMap : MapA<GC, M, Cfg<CAPS_FULL, true, false>> {
    explicit FMap(const Program& p) { this->s.reset(new M((size_t)p.knob("head_bits", 2), (size_t)p.knob("array_bits", 2))); }
    bool traverse(std::vector<long>& out) { trav(out, std::integral_constant<bool, std::is_same<GC, HP>::value || std::is_same<GC, DHP>::value>()); return true; }
    void trav(std::vector<long>& out, std::true_type) { for (auto it = this->s->begin(); it != this->s->end(); ++it) out.push_back(it->first); }
    void trav(std::vector<long>& out, std::false_type) { typename M::rcu_lock l; for (auto it = this->s->begin(); it != this->s->end(); ++it) out.push_back(it->first); }
    void probes(Ctx& c) { feld_probes(c, *this->s); }
};
void gen(Rng& r, Program& p, int tier, const std::string&) {
    GenCfg g; g.min_hazards = 8; g.nkeys_hot = 5; g.nkeys_cold = 3; g.max_ops = 6; gen_program(r, p, tier, g);
    p.set("hash_mode", r.pick({4, 4, 5, 6})); p.set("head_bits", r.pick({1, 2, 2, 4})); p.set("array_bits", r.pick({1, 2, 2, 3}));
}
#define COMPF(f) "real: " f " cds/intrusive/impl/feldman_hashset.h details/feldman_hashset_base.h (array-node expansion, slot conversion), SMR; simulated: scheduler + faults, hashes sharing long prefixes, minimal head/array bits; oracle: linearizability vs key->instance map (update replaces the element), quiescent traversal, size()"
#define FS(var, NAME, GC, F) typedef FSet<GC, cc::FeldmanHashSet<GC, FItem, fs_traits>> T_##var; SM_SUBJECT(var, NAME, "C14,C17,C20", T_##var, gen, COMPF(F))
#define FM(var, NAME, GC, F) typedef FMap<GC, cc::FeldmanHashMap<GC, long, long, fm_traits>> T_##var; SM_SUBJECT(var, NAME, "C14,C17,C20", T_##var, gen, COMPF(F))
FS(s1, "hash.FeldmanHashSet_HP", HP, "cds/container/impl/feldman_hashset.h")
FS(s2, "hash.FeldmanHashSet_DHP", DHP, "cds/container/impl/feldman_hashset.h")
FS(s3, "hash.FeldmanHashSet_RCU_gpb", RCU_GPB, "cds/container/feldman_hashset_rcu.h cds/intrusive/feldman_hashset_rcu.h")
FS(s4, "hash.FeldmanHashSet_RCU_shb", RCU_SHB, "cds/container/feldman_hashset_rcu.h cds/intrusive/feldman_hashset_rcu.h")
FM(m1, "hash.FeldmanHashMap_HP", HP, "cds/container/impl/feldman_hashmap.h")
FM(m2, "hash.FeldmanHashMap_DHP", DHP, "cds/container/impl/feldman_hashmap.h")
FM(m3, "hash.FeldmanHashMap_RCU_gpi", RCU_GPI, "cds/container/feldman_hashmap_rcu.h")
} // namespace
