// C09: TreiberStack (container + intrusive, HP + DHP, elimination off/on with static and dynamic collision arrays) and FCStack.
#include <cds/container/treiber_stack.h>
#include <cds/intrusive/treiber_stack.h>
#include <cds/container/fcstack.h>
#include <cds/intrusive/fcstack.h>
#include <boost/intrusive/list.hpp>
#include <boost/intrusive/slist.hpp>
#include <list>
#include <stack>
#include <vector>
#include "seq_common.h"

using namespace seqc;
namespace cc = cds::container; namespace ci = cds::intrusive; namespace fc = cds::algo::flat_combining;

namespace {
struct Base { long model_override(const Program&) { return 0; } std::function<void(Ctx&)> post_check() { return std::function<void(Ctx&)>(); } static const bool pop_empty_unconstrained = false; long capacity() { return -1; } bool push_front(long, int) { return false; } bool pop_back(long&, int) { return false; } };

template <class S> void stack_probes(Ctx& c, const S& s, int, decltype((void)((S*)0)->m_ActivePushCollision.get())* = nullptr) {
    c.probe("elim_active_collision", (long)(s.m_ActivePushCollision.get() + s.m_ActivePopCollision.get()));
    c.probe("elim_passive_collision", (long)(s.m_PassivePushCollision.get() + s.m_PassivePopCollision.get()));
    c.probe("elim_failed", (long)s.m_EliminationFailed.get()); c.probe("stat_push_race", (long)s.m_PushRace.get()); c.probe("stat_pop_race", (long)s.m_PopRace.get());
}
template <class S> void stack_probes(Ctx&, const S&, long) {}

template <class GC, class S, bool Dyn> struct TrA : Base {
    typedef typename SmrOf<GC>::type Smr; static const SeqModel::Kind kind = SeqModel::LIFO;
    std::unique_ptr<S> s;
    explicit TrA(const Program& p) { make(p, std::integral_constant<bool, Dyn>()); }
    void make(const Program& p, std::true_type) { s.reset(new S((size_t)p.knob("collision_cap", 2))); }
    void make(const Program&, std::false_type) { s.reset(new S()); }
    bool push(long v, int form) { switch (form) { case 1: return s->emplace(v); case 2: { long t = v; return s->push(std::move(t)); } default: return s->push(v); } }
    bool pop(long& v, int form) { if (form == 1) return s->pop_with([&v](long& x) { v = x; }); return s->pop(v); }
    void probes(Ctx& c) { stack_probes(c, s->statistics(), 0); }
};
template <bool Elim, class Buf> struct tr_traits : cc::treiber_stack::traits {
    static constexpr const bool enable_elimination = Elim; typedef Buf buffer; typedef cc::treiber_stack::stat<> stat; typedef cds::atomicity::item_counter item_counter;
};
typedef cds::opt::v::initialized_static_buffer<int, 1> buf1; typedef cds::opt::v::initialized_static_buffer<int, 2> buf2; typedef cds::opt::v::initialized_static_buffer<int, 4> buf4;
typedef cds::opt::v::initialized_dynamic_buffer<int> bufdyn;

// intrusive: popped nodes are retired through the SMR with a freeing disposer (the documented way to destroy popped items)
template <class GC> struct TNode : ci::treiber_stack::node<GC> { long v; };
template <class GC> struct TDisp { void operator()(TNode<GC>* p) const { delete p; } };
template <class GC, bool Elim> struct itr_traits : ci::treiber_stack::traits {
    typedef ci::treiber_stack::base_hook<cds::opt::gc<GC>> hook; typedef TDisp<GC> disposer; static constexpr const bool enable_elimination = Elim; typedef buf2 buffer; typedef ci::treiber_stack::stat<> stat;
};
template <class GC, class S> struct TrI : Base {
    typedef typename SmrOf<GC>::type Smr; static const SeqModel::Kind kind = SeqModel::LIFO;
    S s; explicit TrI(const Program&) {}
    bool push(long v, int) { TNode<GC>* n = new TNode<GC>(); n->v = v; return s.push(*n); }
    bool pop(long& v, int) { TNode<GC>* n = s.pop(); if (!n) return false; v = n->v; GC::template retire<TDisp<GC>>(n); return true; }
    void probes(Ctx& c) { stack_probes(c, s.statistics(), 0); }
};

template <class S> struct FcS : Base {
    typedef SmrNone Smr; static const SeqModel::Kind kind = SeqModel::LIFO;
    S s; explicit FcS(const Program& p) : s((unsigned)p.knob("fc_compact", 1), (unsigned)p.knob("fc_pass", 1)) {}
    bool push(long v, int form) { if (form == 1) { long t = v; return s.push(std::move(t)); } return s.push(v); }
    bool pop(long& v, int) { return s.pop(v); }
    void probes(Ctx& c) { auto const& st = s.statistics(); c.probe("fc_combining_passes", (long)st.m_nCombiningCount.get()); c.probe("fc_collided", (long)st.m_nCollided.get()); c.probe("fc_pubrecords_deleted", (long)st.m_nPubRecordDeleted.get()); }
};
template <bool Elim, class Wait> struct fcs_traits : cc::fcstack::traits { static constexpr const bool enable_elimination = Elim; typedef Wait wait_strategy; typedef cc::fcstack::stat<> stat; };
struct FNode : boost::intrusive::list_base_hook<> { long v; };
struct FDisp { void operator()(FNode* p) const { delete p; } };
template <bool Elim> struct fcsi_traits : ci::fcstack::traits { typedef FDisp disposer; static constexpr const bool enable_elimination = Elim; typedef ci::fcstack::stat<> stat; };
template <class S> struct FcSI : Base {
    typedef SmrNone Smr; static const SeqModel::Kind kind = SeqModel::LIFO;
    S s; explicit FcSI(const Program& p) : s((unsigned)p.knob("fc_compact", 1), (unsigned)p.knob("fc_pass", 1)) {}
    ~FcSI() { s.clear(true); }
    bool push(long v, int) { FNode* n = new FNode(); n->v = v; return s.push(*n); }
    bool pop(long& v, int) { FNode* n = s.pop(); if (!n) return false; v = n->v; delete n; return true; }
    void probes(Ctx& c) { auto const& st = s.statistics(); c.probe("fc_combining_passes", (long)st.m_nCombiningCount.get()); c.probe("fc_collided", (long)st.m_nCollided.get()); }
};

template <int PushForms, int PopForms> void gen_tr(Rng& r, Program& p, int tier, const std::string&) {
    GenCfg g; g.push_forms = PushForms; g.pop_forms = PopForms; g.min_hazards = 2; g.max_threads_quick = 4; gen_program(r, p, tier, g); p.set("collision_cap", r.range(1, 4));
}
void gen_fc(Rng& r, Program& p, int tier, const std::string&) { GenCfg g; g.push_forms = 2; g.max_threads_quick = 4; gen_program(r, p, tier, g); p.set("fc_compact", r.pick({1, 1, 2, 4})); p.set("fc_pass", r.range(1, 3)); }
void tune_elim(dsim::Params& p, Rng& r, const Program& pr, const std::string& s) { tune_default(p, r, pr, s); p.f8_permille = r.pick({0, 5, 30, 100}); }

typedef cds::gc::HP HP; typedef cds::gc::DHP DHP;
#define COMPS(f) "real: " f " cds/algo/elimination.h elimination_tls.h (collision array, delay back-off as simulated sleep), SMR; simulated: scheduler, weak-CAS failures, early time-outs of the elimination delay, heap address reuse (LIFO arena: ABA), eager reclamation; oracle: linearizability vs LIFO"
#define COMPFS(f) "real: " f " cds/algo/flat_combining/kernel.h wait_strategy.h; simulated: scheduler, mutex/condvar, sleeps/time-outs; oracle: linearizability vs LIFO"
#define STACK_SUBJECT(var, NAME, ADAPTER, GENFN, COMP) \
    static const vh::Subject var = {NAME, "C09", GENFN, seqc::run<ADAPTER>, seqc::check<ADAPTER>, tune_elim, seqc::opnames, COMP}; static vh::Registrar var##_reg(&var);

typedef TrA<HP, cc::TreiberStack<HP, long, tr_traits<false, buf4>>, false> A1; STACK_SUBJECT(t1, "stack.Treiber_HP", A1, (gen_tr<3, 2>), COMPS("cds/container/treiber_stack.h cds/intrusive/treiber_stack.h"))
typedef TrA<DHP, cc::TreiberStack<DHP, long, tr_traits<false, buf4>>, false> A2; STACK_SUBJECT(t2, "stack.Treiber_DHP", A2, (gen_tr<3, 2>), COMPS("cds/container/treiber_stack.h cds/intrusive/treiber_stack.h"))
typedef TrA<HP, cc::TreiberStack<HP, long, tr_traits<true, buf1>>, false> A3; STACK_SUBJECT(t3, "stack.Treiber_HP_elim1", A3, (gen_tr<3, 2>), COMPS("cds/container/treiber_stack.h (elimination, static array 1)"))
typedef TrA<HP, cc::TreiberStack<HP, long, tr_traits<true, buf2>>, false> A4; STACK_SUBJECT(t4, "stack.Treiber_HP_elim2", A4, (gen_tr<3, 2>), COMPS("cds/container/treiber_stack.h (elimination, static array 2)"))
typedef TrA<DHP, cc::TreiberStack<DHP, long, tr_traits<true, buf4>>, false> A5; STACK_SUBJECT(t5, "stack.Treiber_DHP_elim4", A5, (gen_tr<3, 2>), COMPS("cds/container/treiber_stack.h (elimination, static array 4)"))
typedef TrA<HP, cc::TreiberStack<HP, long, tr_traits<true, bufdyn>>, true> A6; STACK_SUBJECT(t6, "stack.Treiber_HP_elim_dyn", A6, (gen_tr<3, 2>), COMPS("cds/container/treiber_stack.h (elimination, dynamic array 1..4)"))
typedef TrA<DHP, cc::TreiberStack<DHP, long, tr_traits<true, bufdyn>>, true> A7; STACK_SUBJECT(t7, "stack.Treiber_DHP_elim_dyn", A7, (gen_tr<3, 2>), COMPS("cds/container/treiber_stack.h (elimination, dynamic array 1..4)"))
typedef TrI<HP, ci::TreiberStack<HP, TNode<HP>, itr_traits<HP, false>>> I1; STACK_SUBJECT(i1, "stack.iTreiber_HP", I1, (gen_tr<1, 1>), COMPS("cds/intrusive/treiber_stack.h (popped nodes retired through HP, disposer frees)"))
typedef TrI<DHP, ci::TreiberStack<DHP, TNode<DHP>, itr_traits<DHP, false>>> I2; STACK_SUBJECT(i2, "stack.iTreiber_DHP", I2, (gen_tr<1, 1>), COMPS("cds/intrusive/treiber_stack.h"))
typedef TrI<HP, ci::TreiberStack<HP, TNode<HP>, itr_traits<HP, true>>> I3; STACK_SUBJECT(i3, "stack.iTreiber_HP_elim", I3, (gen_tr<1, 1>), COMPS("cds/intrusive/treiber_stack.h (elimination)"))
typedef TrI<DHP, ci::TreiberStack<DHP, TNode<DHP>, itr_traits<DHP, true>>> I4; STACK_SUBJECT(i4, "stack.iTreiber_DHP_elim", I4, (gen_tr<1, 1>), COMPS("cds/intrusive/treiber_stack.h (elimination)"))
typedef FcS<cc::FCStack<long, std::stack<long>, fcs_traits<false, fc::wait_strategy::backoff<>>>> F1; STACK_SUBJECT(f1, "stack.FCStack_deque", F1, gen_fc, COMPFS("cds/container/fcstack.h"))
typedef FcS<cc::FCStack<long, std::stack<long, std::vector<long>>, fcs_traits<true, fc::wait_strategy::backoff<>>>> F2; STACK_SUBJECT(f2, "stack.FCStack_vector_elim", F2, gen_fc, COMPFS("cds/container/fcstack.h (elimination)"))
typedef FcS<cc::FCStack<long, std::stack<long, std::list<long>>, fcs_traits<true, fc::wait_strategy::single_mutex_multi_condvar<2>>>> F3; STACK_SUBJECT(f3, "stack.FCStack_list_elim_smmc", F3, gen_fc, COMPFS("cds/container/fcstack.h (elimination)"))
typedef FcS<cc::FCStack<long, std::stack<long>, fcs_traits<false, fc::wait_strategy::multi_mutex_multi_condvar<2>>>> F4; STACK_SUBJECT(f4, "stack.FCStack_mmmc", F4, gen_fc, COMPFS("cds/container/fcstack.h"))
typedef FcSI<ci::FCStack<FNode, boost::intrusive::list<FNode>, fcsi_traits<false>>> F5; STACK_SUBJECT(f5, "stack.iFCStack_list", F5, gen_fc, COMPFS("cds/intrusive/fcstack.h"))
typedef FcSI<ci::FCStack<FNode, boost::intrusive::list<FNode>, fcsi_traits<true>>> F6; STACK_SUBJECT(f6, "stack.iFCStack_list_elim", F6, gen_fc, COMPFS("cds/intrusive/fcstack.h (elimination)"))
} // namespace
