// C13: MichaelList, LazyList, IterableList as sets and key-value lists over HP, DHP and the RCU flavours.
#include <cds/container/michael_list_hp.h>
#include <cds/container/michael_list_dhp.h>
#include <cds/container/michael_list_rcu.h>
#include <cds/container/lazy_list_hp.h>
#include <cds/container/lazy_list_dhp.h>
#include <cds/container/lazy_list_rcu.h>
#include <cds/container/iterable_list_hp.h>
#include <cds/container/iterable_list_dhp.h>
#include <cds/container/michael_kvlist_hp.h>
#include <cds/container/michael_kvlist_dhp.h>
#include <cds/container/michael_kvlist_rcu.h>
#include <cds/container/lazy_kvlist_hp.h>
#include <cds/container/lazy_kvlist_rcu.h>
#include <cds/container/iterable_kvlist_hp.h>
#include <cds/container/iterable_kvlist_dhp.h>
#include "setmap_common.h"

using namespace smc;
namespace cc = cds::container;
namespace {
typedef cds::gc::HP HP; typedef cds::gc::DHP DHP;
struct ml_less : cc::michael_list::traits { typedef Less less; typedef cds::atomicity::item_counter item_counter; };
struct ml_cmp : cc::michael_list::traits { typedef Cmp compare; typedef cds::atomicity::item_counter item_counter; typedef cc::michael_list::stat<> stat; };
struct ll_less : cc::lazy_list::traits { typedef Less less; typedef cds::atomicity::item_counter item_counter; };
struct ll_cmp : cc::lazy_list::traits { typedef Cmp compare; typedef cds::atomicity::item_counter item_counter; typedef cc::lazy_list::stat<> stat; };
struct il_less : cc::iterable_list::traits { typedef Less less; typedef cds::atomicity::item_counter item_counter; };
struct il_cmp : cc::iterable_list::traits { typedef Cmp compare; typedef cds::atomicity::item_counter item_counter; typedef cc::iterable_list::stat<> stat; };

typedef Cfg<CAPS_FULL> C_full; typedef Cfg<CAPS_FULL, true> C_repl; typedef Cfg<CAPS_FULL, false, true, true, true, true> C_lazy_rcu;
void gen(Rng& r, Program& p, int tier, const std::string&) { GenCfg g; g.min_hazards = 8; g.nkeys_hot = r.pick({3, 3, 5, 6}); gen_program(r, p, tier, g); }
#define COMPL(f) "real: " f ", SMR (HP/DHP src, RCU headers); simulated: scheduler, weak-CAS failures, stalls, thread churn, eager reclamation, (RCU) mutex/condvar/signals; oracle: linearizability vs key->instance map incl. quiescent find of every key, exact ordered traversal, size()/empty()"
#define LIST_SET(var, NAME, GC, LIST, CFG, F) typedef SetA<GC, LIST, CFG> T_##var; SM_SUBJECT(var, NAME, "C13,C18,C20", T_##var, gen, COMPL(F))
#define LIST_MAP(var, NAME, GC, LIST, CFG, F) typedef MapA<GC, LIST, CFG> T_##var; SM_SUBJECT(var, NAME, "C13,C18,C20", T_##var, gen, COMPL(F))
typedef cc::MichaelList<HP, Item, ml_less> ML1; LIST_SET(a1, "list.MichaelList_HP", HP, ML1, C_full, "cds/container/impl/michael_list.h cds/intrusive/impl/michael_list.h")
typedef cc::MichaelList<DHP, Item, ml_cmp> ML2; LIST_SET(a2, "list.MichaelList_DHP_cmp", DHP, ML2, C_full, "cds/container/impl/michael_list.h cds/intrusive/impl/michael_list.h")
typedef cc::MichaelList<RCU_GPB, Item, ml_less> ML3; LIST_SET(a3, "list.MichaelList_RCU_gpb", RCU_GPB, ML3, C_full, "cds/container/michael_list_rcu.h cds/intrusive/michael_list_rcu.h")
typedef cc::MichaelList<RCU_GPI, Item, ml_cmp> ML4; LIST_SET(a4, "list.MichaelList_RCU_gpi", RCU_GPI, ML4, C_full, "cds/container/michael_list_rcu.h cds/intrusive/michael_list_rcu.h")
typedef cc::MichaelList<RCU_GPT, Item, ml_less> ML5; LIST_SET(a5, "list.MichaelList_RCU_gpt", RCU_GPT, ML5, C_full, "cds/container/michael_list_rcu.h cds/intrusive/michael_list_rcu.h")
typedef cc::MichaelList<RCU_SHB, Item, ml_less> ML6; LIST_SET(a6, "list.MichaelList_RCU_shb", RCU_SHB, ML6, C_full, "cds/container/michael_list_rcu.h cds/intrusive/michael_list_rcu.h")
typedef cc::LazyList<HP, Item, ll_less> LL1; LIST_SET(b1, "list.LazyList_HP", HP, LL1, C_full, "cds/container/impl/lazy_list.h cds/intrusive/impl/lazy_list.h")
typedef cc::LazyList<DHP, Item, ll_cmp> LL2; LIST_SET(b2, "list.LazyList_DHP_cmp", DHP, LL2, C_full, "cds/container/impl/lazy_list.h cds/intrusive/impl/lazy_list.h")
typedef cc::LazyList<RCU_GPB, Item, ll_less> LL3; LIST_SET(b3, "list.LazyList_RCU_gpb", RCU_GPB, LL3, C_lazy_rcu, "cds/container/lazy_list_rcu.h cds/intrusive/lazy_list_rcu.h")
typedef cc::LazyList<RCU_SHB, Item, ll_cmp> LL4; LIST_SET(b4, "list.LazyList_RCU_shb", RCU_SHB, LL4, C_lazy_rcu, "cds/container/lazy_list_rcu.h cds/intrusive/lazy_list_rcu.h")
typedef cc::IterableList<HP, Item, il_less> IL1; LIST_SET(c1, "list.IterableList_HP", HP, IL1, C_repl, "cds/container/impl/iterable_list.h cds/intrusive/impl/iterable_list.h")
typedef cc::IterableList<DHP, Item, il_cmp> IL2; LIST_SET(c2, "list.IterableList_DHP_cmp", DHP, IL2, C_repl, "cds/container/impl/iterable_list.h cds/intrusive/impl/iterable_list.h")
typedef cc::MichaelKVList<HP, long, long, ml_less> KM1; LIST_MAP(k1, "list.MichaelKVList_HP", HP, KM1, C_full, "cds/container/impl/michael_kvlist.h")
typedef cc::MichaelKVList<RCU_GPB, long, long, ml_cmp> KM2; LIST_MAP(k2, "list.MichaelKVList_RCU_gpb", RCU_GPB, KM2, C_full, "cds/container/michael_kvlist_rcu.h")
typedef cc::LazyKVList<HP, long, long, ll_less> KL1; LIST_MAP(k3, "list.LazyKVList_HP", HP, KL1, C_full, "cds/container/impl/lazy_kvlist.h")
typedef cc::LazyKVList<RCU_GPI, long, long, ll_cmp> KL2; LIST_MAP(k4, "list.LazyKVList_RCU_gpi", RCU_GPI, KL2, C_lazy_rcu, "cds/container/lazy_kvlist_rcu.h")
typedef cc::IterableKVList<HP, long, long, il_less> KI1; LIST_MAP(k5, "list.IterableKVList_HP", HP, KI1, C_repl, "cds/container/impl/iterable_kvlist.h")
typedef cc::IterableKVList<DHP, long, long, il_cmp> KI2; LIST_MAP(k6, "list.IterableKVList_DHP", DHP, KI2, C_repl, "cds/container/impl/iterable_kvlist.h")
} // namespace
