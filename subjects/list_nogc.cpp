// C13 (insert-only variants): MichaelList / LazyList / MichaelKVList / LazyKVList over cds::gc::nogc.
#include <cds/container/michael_list_nogc.h>
#include <cds/container/lazy_list_nogc.h>
#include <cds/container/michael_kvlist_nogc.h>
#include <cds/container/lazy_kvlist_nogc.h>
#include "setmap_common.h"

using namespace smc;
namespace cc = cds::container;
namespace {
typedef cds::gc::nogc NOGC;
struct ml_less : cc::michael_list::traits { typedef Less less; typedef cds::atomicity::item_counter item_counter; };
struct ml_cmp : cc::michael_list::traits { typedef Cmp compare; typedef cds::atomicity::item_counter item_counter; typedef cc::michael_list::stat<> stat; };
struct ll_less : cc::lazy_list::traits { typedef Less less; typedef cds::atomicity::item_counter item_counter; };
struct ll_cmp : cc::lazy_list::traits { typedef Cmp compare; typedef cds::atomicity::item_counter item_counter; typedef cc::lazy_list::stat<> stat; };
typedef Cfg<CAPS_NOGC> C_nogc;
void gen(Rng& r, Program& p, int tier, const std::string&) { GenCfg g; g.caps = CAPS_NOGC; g.nkeys_hot = 6; g.nkeys_cold = 2; g.max_ops = 6; g.insert_forms = 3; gen_program(r, p, tier, g); }
#define COMPN(f) "real: " f " (insert-only, nodes are never freed); simulated: scheduler, weak-CAS failures, stalls, late threads; oracle: linearizability vs key->instance map (iterator results dereferenced), quiescent find of every key, exact ordered traversal, size()/empty()"
#define NSET(var, NAME, LIST, F) typedef NogcSetA<LIST, C_nogc> T_##var; SM_SUBJECT(var, NAME, "C13,C18,C20", T_##var, gen, COMPN(F))
#define NMAP(var, NAME, LIST, F) typedef NogcMapA<LIST, C_nogc> T_##var; SM_SUBJECT(var, NAME, "C13,C18,C20", T_##var, gen, COMPN(F))
typedef cc::MichaelList<NOGC, Item, ml_less> N1; NSET(n1, "list.MichaelList_nogc", N1, "cds/container/michael_list_nogc.h cds/intrusive/michael_list_nogc.h")
typedef cc::MichaelList<NOGC, Item, ml_cmp> N2; NSET(n2, "list.MichaelList_nogc_cmp", N2, "cds/container/michael_list_nogc.h cds/intrusive/michael_list_nogc.h")
typedef cc::LazyList<NOGC, Item, ll_less> N3; NSET(n3, "list.LazyList_nogc", N3, "cds/container/lazy_list_nogc.h cds/intrusive/lazy_list_nogc.h")
typedef cc::LazyList<NOGC, Item, ll_cmp> N4; NSET(n4, "list.LazyList_nogc_cmp", N4, "cds/container/lazy_list_nogc.h cds/intrusive/lazy_list_nogc.h")
typedef cc::MichaelKVList<NOGC, long, long, ml_less> N5; NMAP(n5, "list.MichaelKVList_nogc", N5, "cds/container/michael_kvlist_nogc.h")
typedef cc::LazyKVList<NOGC, long, long, ll_cmp> N6; NMAP(n6, "list.LazyKVList_nogc", N6, "cds/container/lazy_kvlist_nogc.h")
} // namespace
