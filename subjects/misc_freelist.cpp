// C21: FreeList, TaggedFreeList, CachedFreeList — a node obtained by get() is not handed out again until it has been put()
// back, and at quiescence every node that is not owned can be obtained again (ownership-map oracle, checked online).
#include <cds/init.h>
#include <cds/intrusive/free_list.h>
#include <cds/intrusive/free_list_tagged.h>
#include <cds/intrusive/free_list_cached.h>
#include <memory>
#include "../harness/core.h"

namespace dsim { extern thread_local int t_bypass; }
using namespace vh;
namespace {
enum { O_GET = 0, O_PUT = 1 };
const char* const opnames[] = {"get", "put", nullptr};

template <class FL> void run(Ctx& ctx) {
    const Program& P = *ctx.prog; typedef typename FL::node node;
    int nn = (int)P.knob("nodes", 2);
    std::unique_ptr<node[]> nodes(new node[nn]);
    std::vector<int> owner(nn, -1);   // -1 = in the list
    {
        FL fl;
        for (int i = 0; i < nn; i++) fl.put(&nodes[i]);
        std::vector<std::vector<int>> mine(P.threads.size());
        auto idx_of = [&](node* p) -> int { long d = p - nodes.get(); return (d >= 0 && d < nn) ? (int)d : -1; };
        ctx.run_clients(
            [&](int) {},
            [&](int t, const Op& op) {
                int h = ctx.begin_op(t, op); long res = -1;
                if (op.kind == O_GET) {
                    node* p = fl.get();
                    if (p) {
                        int i = idx_of(p);
                        if (i < 0) ctx.fail("foreign-node", "get() returned a pointer that is not one of the %d nodes", nn);
                        else { if (owner[i] != -1) ctx.fail("handed-out-twice", "get() by client %d returned node %d which client %d obtained earlier and has not put back", t, i, owner[i]); owner[i] = t; mine[t].push_back(i); res = i; }
                        for (long k = 0; k < op.b; k++) dsim::point(dsim::K_USER);
                    }
                } else if (!mine[t].empty()) {
                    int i = mine[t].front(); mine[t].erase(mine[t].begin()); owner[i] = -1; res = i;
                    fl.put(&nodes[i]);
                }
                ctx.end_op(h, res);
            },
            [&](int t) { for (int i : mine[t]) { owner[i] = -1; fl.put(&nodes[i]); } mine[t].clear(); });
        // quiescence: every node must be obtainable again, each exactly once
        std::vector<int> got(nn, 0); int n = 0;
        for (int k = 0; k < nn + 4; k++) { node* p = fl.get(); if (!p) break; int i = idx_of(p); if (i < 0) { ctx.fail("foreign-node", "quiescent get() returned a foreign pointer"); break; } ++got[i]; ++n; }
        for (int i = 0; i < nn; i++) {
            if (got[i] == 0) { ctx.fail("node-lost", "node %d was put back but cannot be obtained again at quiescence (%d of %d nodes recovered)", i, n, nn); break; }
            if (got[i] > 1) { ctx.fail("handed-out-twice", "node %d obtained %d times at quiescence", i, got[i]); break; }
        }
        fl.clear([](node*) {});
    }
}
void gen(Rng& r, Program& p, int tier, const std::string&) {
    int nth = r.range(2, tier ? 4 : 3); p.set("nodes", r.range(1, 4)); p.threads.resize(nth);
    for (int t = 0; t < nth; t++) {
        if (t > 0 && r.chance(150)) p.threads[t].start_after = r.below(t);
        int nops = r.range(2, 8), held = 0;
        for (int k = 0; k < nops; k++) { bool get = held == 0 || r.chance(550); p.add(t, get ? O_GET : O_PUT, 0, r.pick({0, 0, 2, 6})); held += get ? 1 : (held > 0 ? -1 : 0); }
    }
}
void tune(dsim::Params& p, Rng& r, const Program&, const std::string&) {
    p.f1_permille = r.pick({0, 20, 80, 200}); if (r.chance(350)) { p.tso_permille = r.pick({300, 700}); p.tso_residency = r.pick({64, 512}); }
    p.soft_cap = 60000; p.hard_cap = 120000;
}
#define COMP(f) "real: " f "; simulated: scheduler (PRE1 pre-emptions land between the refcount CAS and the head CAS), weak-CAS failures, x86-TSO store buffer, thread churn, interposed thread ids (CachedFreeList slot); oracle: online ownership map + quiescent recovery of every node"
#define FL_SUBJECT(var, NAME, T, F) static const Subject var = {NAME, "C21", gen, run<T>, nullptr, tune, opnames, COMP(F)}; static Registrar var##_reg(&var);
FL_SUBJECT(f1, "misc.FreeList", cds::intrusive::FreeList, "cds/intrusive/free_list.h")
FL_SUBJECT(f2, "misc.TaggedFreeList", cds::intrusive::TaggedFreeList, "cds/intrusive/free_list_tagged.h (16-byte CAS)")
FL_SUBJECT(f3, "misc.CachedFreeList_FreeList", cds::intrusive::CachedFreeList<cds::intrusive::FreeList>, "cds/intrusive/free_list_cached.h over FreeList")
FL_SUBJECT(f4, "misc.CachedFreeList_TaggedFreeList", cds::intrusive::CachedFreeList<cds::intrusive::TaggedFreeList>, "cds/intrusive/free_list_cached.h over TaggedFreeList")
} // namespace
