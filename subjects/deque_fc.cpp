// C10: FCDeque over std::deque and boost::container::deque, elimination on/off, pass counts 1..4.
#include <cds/container/fcdeque.h>
#include <boost/container/deque.hpp>
#include <deque>
#include "seq_common.h"

using namespace seqc;
namespace cc = cds::container; namespace fc = cds::algo::flat_combining;

namespace {
struct Base { long model_override(const Program&) { return 0; } std::function<void(Ctx&)> post_check() { return std::function<void(Ctx&)>(); } static const bool pop_empty_unconstrained = false; long capacity() { return -1; } };
template <class D> struct DqA : Base {
    typedef SmrNone Smr; static const SeqModel::Kind kind = SeqModel::DEQUE;
    D d; explicit DqA(const Program& p) : d((unsigned)p.knob("fc_compact", 1), (unsigned)p.knob("fc_pass", 1)) {}
    bool push(long v, int form) { if (form == 1) { long t = v; return d.push_back(std::move(t)); } return d.push_back(v); }
    bool pop(long& v, int) { return d.pop_front(v); }
    bool push_front(long v, int form) { if (form == 1) { long t = v; return d.push_front(std::move(t)); } return d.push_front(v); }
    bool pop_back(long& v, int) { return d.pop_back(v); }
    void probes(Ctx& c) { auto const& s = d.statistics(); c.probe("fc_combining_passes", (long)s.m_nCombiningCount.get()); c.probe("fc_collided", (long)s.m_nCollided.get()); c.probe("fc_pubrecords_deleted", (long)s.m_nPubRecordDeleted.get()); }
};
template <bool Elim, class Wait> struct dq_traits : cc::fcdeque::traits { static constexpr const bool enable_elimination = Elim; typedef Wait wait_strategy; typedef cc::fcdeque::stat<> stat; };
void gen(Rng& r, Program& p, int tier, const std::string&) { GenCfg g; g.deque = true; g.push_forms = 2; g.max_threads_quick = 4; gen_program(r, p, tier, g); p.set("fc_compact", r.pick({1, 1, 2, 4})); p.set("fc_pass", r.range(1, 4)); }
#define COMPD(f) "real: " f " cds/algo/flat_combining/kernel.h wait_strategy.h; simulated: scheduler, mutex/condvar, sleeps/time-outs; oracle: linearizability vs sequential deque (a cross-end collision is only legal when the deque is empty)"
typedef DqA<cc::FCDeque<long, std::deque<long>, dq_traits<false, fc::wait_strategy::backoff<>>>> A1; SEQ_SUBJECT(d1, "deque.FCDeque_std", "C10", A1, gen, COMPD("cds/container/fcdeque.h"))
typedef DqA<cc::FCDeque<long, std::deque<long>, dq_traits<true, fc::wait_strategy::backoff<>>>> A2; SEQ_SUBJECT(d2, "deque.FCDeque_std_elim", "C10", A2, gen, COMPD("cds/container/fcdeque.h (elimination)"))
typedef DqA<cc::FCDeque<long, boost::container::deque<long>, dq_traits<true, fc::wait_strategy::single_mutex_single_condvar<2>>>> A3; SEQ_SUBJECT(d3, "deque.FCDeque_boost_elim_smsc", "C10", A3, gen, COMPD("cds/container/fcdeque.h (elimination, boost deque)"))
typedef DqA<cc::FCDeque<long, boost::container::deque<long>, dq_traits<false, fc::wait_strategy::multi_mutex_multi_condvar<2>>>> A4; SEQ_SUBJECT(d4, "deque.FCDeque_boost_mmmc", "C10", A4, gen, COMPD("cds/container/fcdeque.h (boost deque)"))
typedef DqA<cc::FCDeque<long, std::deque<long>, dq_traits<true, fc::wait_strategy::empty>>> A5; SEQ_SUBJECT(d5, "deque.FCDeque_std_elim_nowait", "C10", A5, gen, COMPD("cds/container/fcdeque.h (elimination, empty wait strategy)"))
} // namespace
