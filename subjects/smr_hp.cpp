// SMR exerciser for Hazard Pointers and Dynamic Hazard Pointers: properties C01, C02, C03.
// Real code: src/hp.cpp, src/dhp.cpp, cds/gc/hp.h, dhp.h, details/hp_common.h, free lists used by DHP,
// cds::threading::Manager.  The "container" is K shared atomic cells holding harness objects.
#include <cds/init.h>
#include <cds/gc/hp.h>
#include <cds/gc/dhp.h>
#include <cds/threading/model.h>
#include <memory>
#include "../harness/core.h"

namespace dsim { extern thread_local int t_bypass; }
using namespace vh;

namespace {
enum { O_READ, O_ACQ, O_REL, O_DEREF, O_REPLACE, O_CLEAR, O_SCAN, O_REATTACH, O_BURST, O_FLOOD };
const char* const opnames[] = {"read", "acquire", "release", "deref", "replace", "clear", "scan", "reattach", "burst", "flood", nullptr};

struct Obj { uint32_t magic; int idx; long payload; };
enum { LIVE = 0, RETIRED = 1, DISPOSED = 2 };
struct Rec { Obj* p; int state, cell, retired_by, session, disposed_count; uint64_t unlink_step, retire_step; };
struct Hold { int thread; Obj* p; int cell; uint64_t t_begin, t_valid, t_rel_inv, t_end; bool valid, rel; };
const uint64_t INF = ~0ULL;
const int MAXREC = 4096, MAXHOLD = 4096, MAXCELL = 4;

struct World {
    Ctx* ctx;
    Rec rec[MAXREC]; int nrec;
    Hold hold[MAXHOLD]; int nhold;
    uint64_t call_inv[64];      // per simulated thread: invocation step of the harness call that may reclaim
    int session[64];
    bool destructing;
    Rec* find(void* p) { for (int i = nrec; i-- > 0;) if (rec[i].p == p) return &rec[i]; return nullptr; }
};
World* W;

void disposer(void* v) {
    Rec* r = W->find(v);
    if (!r) { W->ctx->fail("dispose-unknown", "disposer called with unknown pointer %p", v); return; }
    ++r->disposed_count;
    if (r->state == DISPOSED) { W->ctx->fail("double-dispose", "object #%d disposed twice", (int)(r - W->rec)); return; }
    if (r->state != RETIRED) { W->ctx->fail("dispose-not-retired", "object #%d disposed but never retired", (int)(r - W->rec)); return; }
    int me = dsim::self_id(); uint64_t tc = W->call_inv[me & 63];
    for (int i = 0; i < W->nhold; i++) {
        Hold& h = W->hold[i];
        if (h.p == r->p && h.valid && h.t_valid < tc && !h.rel) {
            W->ctx->fail("freed-while-guarded", "object #%d (cell %d) disposed at step %llu by t%d inside a call invoked at %llu while client %d holds a guard validated at %llu",
                         (int)(r - W->rec), r->cell, (unsigned long long)dsim::now_step(), me, (unsigned long long)tc, h.thread, (unsigned long long)h.t_valid);
            break;
        }
    }
    r->state = DISPOSED;
    W->ctx->probe(W->destructing ? "disposed_at_singleton_destruction" : "disposed_during_run");
    memset(r->p, 0xDD, sizeof(Obj));
}

template <class GC> struct Ex {
    typedef typename GC::Guard Guard;
    atomics::atomic<Obj*> cell[MAXCELL];
    int ncell;

    Obj* fresh(int c, bool odd) {
        char* mem = (char*)::operator new(sizeof(Obj) + 8);
        Obj* o = (Obj*)(mem + (odd ? 1 : 0));
        if (W->nrec >= MAXREC) { W->ctx->fail("harness", "too many objects"); return nullptr; }
        Rec& r = W->rec[W->nrec]; r.p = o; r.state = LIVE; r.cell = c; r.retired_by = -1; r.session = 0; r.disposed_count = 0; r.unlink_step = INF; r.retire_step = INF;
        Obj t; t.magic = 0xC0FFEE; t.idx = W->nrec; t.payload = 1000 + W->nrec; memcpy((void*)o, &t, sizeof t);
        ++W->nrec; return o;
    }
    static bool deref_ok(Obj* p, const char* how, int thread) {
        if (!p) return true;
        Rec* r = W->find(p);
        Obj t; memcpy(&t, (void*)p, sizeof t);
        if (!r || r->state == DISPOSED || t.magic != 0xC0FFEE) { W->ctx->fail("deref-after-dispose", "client %d dereferenced object #%d through %s after it was disposed", thread, r ? (int)(r - W->rec) : -1, how); return false; }
        return true;
    }
    int begin_hold(int thread, int c) { if (W->nhold >= MAXHOLD) return -1; Hold& h = W->hold[W->nhold]; h.thread = thread; h.p = nullptr; h.cell = c; h.t_begin = dsim::now_step(); h.t_valid = INF; h.t_rel_inv = INF; h.t_end = INF; h.valid = false; h.rel = false; return W->nhold++; }
    void validated(int hi, Obj* p) { if (hi < 0) return; Hold& h = W->hold[hi]; h.p = p; h.t_valid = dsim::now_step(); h.valid = true; }
    void releasing(int hi) { if (hi < 0) return; Hold& h = W->hold[hi]; h.rel = true; h.t_rel_inv = dsim::now_step(); }
    void ended(int hi) { if (hi < 0) return; W->hold[hi].t_end = dsim::now_step(); }

    void retire(int thread, Obj* old) {
        if (!old) return;
        Rec* r = W->find(old); r->state = RETIRED; r->retired_by = thread; r->session = W->session[thread & 63]; r->retire_step = dsim::now_step();
        GC::retire(old, disposer);
    }
    void unlink_and_retire(int thread, int c, Obj* repl) {
        Obj* old = cell[c].exchange(repl, atomics::memory_order_acq_rel);
        if (old) { W->find(old)->unlink_step = dsim::now_step(); retire(thread, old); }
    }
    // objects retired by 'thread' in its current session before step a must be DISPOSED unless possibly guarded during [a, now]
    void check_scan_freed(int thread, uint64_t a) {
        for (int i = 0; i < W->nrec; i++) {
            Rec& r = W->rec[i];
            if (r.state != RETIRED || r.retired_by != thread || r.session != W->session[thread & 63] || r.retire_step >= a) continue;
            bool guarded = false;
            for (int k = 0; k < W->nhold && !guarded; k++) { Hold& h = W->hold[k]; if (h.cell == r.cell && h.t_begin <= r.unlink_step && h.t_end >= a) guarded = true; }
            if (!guarded) { W->ctx->fail("scan-kept-unguarded", "scan by client %d (invoked at %llu) did not free object #%d although no guard could protect it during the pass", thread, (unsigned long long)a, i); return; }
        }
    }
};

template <class GC> void construct_gc(const Program& p, std::unique_ptr<GC>& gc);
template <> void construct_gc<cds::gc::HP>(const Program& p, std::unique_ptr<cds::gc::HP>& gc) {
    gc.reset(new cds::gc::HP((size_t)p.knob("H"), (size_t)p.knob("T"), (size_t)p.knob("R"), p.knob("classic") ? cds::gc::HP::scan_type::classic : cds::gc::HP::scan_type::inplace));
}
template <> void construct_gc<cds::gc::DHP>(const Program& p, std::unique_ptr<cds::gc::DHP>& gc) { gc.reset(new cds::gc::DHP((size_t)p.knob("init_guards"))); }

template <class GC> void run(Ctx& ctx) {
    typedef typename GC::Guard Guard;
    const Program& P = *ctx.prog;
    ++dsim::t_bypass; std::unique_ptr<World> world(new World()); --dsim::t_bypass;
    W = world.get(); W->ctx = &ctx; W->nrec = 0; W->nhold = 0; W->destructing = false; memset(W->call_inv, 0, sizeof W->call_inv); memset(W->session, 0, sizeof W->session);
    int mainid = 63;
    {
        std::unique_ptr<GC> gc; construct_gc<GC>(P, gc);
        cds::threading::Manager::attachThread();
        {
            Ex<GC> ex; ex.ncell = (int)P.knob("cells", 2);
            for (int c = 0; c < MAXCELL; c++) ex.cell[c].store(nullptr, atomics::memory_order_relaxed);
            for (int c = 0; c < ex.ncell; c++) if (P.knob("prefill", 1)) ex.cell[c].store(ex.fresh(c, false), atomics::memory_order_release);
            struct TS { Guard* slot[2]; int hold[2]; Obj* ptr[2]; };
            std::vector<TS> ts(P.threads.size());
            for (auto& t : ts) { t.slot[0] = t.slot[1] = nullptr; t.hold[0] = t.hold[1] = -1; t.ptr[0] = t.ptr[1] = nullptr; }
            ctx.run_clients(
                [&](int i) { cds::threading::Manager::attachThread(); ++W->session[i]; },
                [&](int i, const Op& op) {
                    int hi = ctx.begin_op(i, op); int sid = dsim::self_id() & 63; long res = 0;
                    switch (op.kind) {
                    case O_READ: {
                        int c = (int)op.a % ex.ncell; int h = ex.begin_hold(i, c); Obj* p = nullptr;
                        if (op.c == 0) { Guard g; p = g.protect(ex.cell[c]); ex.validated(h, p); for (long k = 0; k < op.b; k++) dsim::point(dsim::K_USER); Ex<GC>::deref_ok(p, "Guard::protect", i); ex.releasing(h); }
                        else if (op.c == 1) { Guard g; Obj* q; do { p = ex.cell[c].load(atomics::memory_order_acquire); g.assign(p); q = ex.cell[c].load(atomics::memory_order_acquire); } while (p != q); ex.validated(h, p); for (long k = 0; k < op.b; k++) dsim::point(dsim::K_USER); Ex<GC>::deref_ok(p, "Guard::assign", i); ex.releasing(h); g.clear(); }
                        else if (op.c == 2) { typename GC::template GuardArray<2> ga; p = ga.protect(1, ex.cell[c]); ex.validated(h, p); for (long k = 0; k < op.b; k++) dsim::point(dsim::K_USER); Ex<GC>::deref_ok(p, "GuardArray::protect", i); ex.releasing(h); ga.clear(1); }
                        else if (op.c == 4) { static const size_t idx[4] = {5, 11, 19, 23}; size_t gi = idx[op.id & 3]; typename GC::template GuardArray<24> ga; p = ga.protect(gi, ex.cell[c]); ex.validated(h, p); for (long k = 0; k < op.b; k++) dsim::point(dsim::K_USER); Ex<GC>::deref_ok(p, "GuardArray<24>::protect (DHP: slot in the first or second extended guard block)", i); ex.releasing(h); ga.clear(gi); ctx.probe("wide_guard_array"); }
                        else { Guard g1; p = g1.protect(ex.cell[c]); ex.validated(h, p); { Guard g2; g2.copy(g1); g1.clear(); for (long k = 0; k < op.b; k++) dsim::point(dsim::K_USER); Ex<GC>::deref_ok(p, "Guard::copy", i); ex.releasing(h); } }
                        res = p ? W->find(p) ? (long)(W->find(p) - W->rec) : -2 : -1;
                        ctx.end_op(hi, res); ex.ended(h); return; }
                    case O_ACQ: {
                        int s = (int)op.a & 1, c = (int)op.b % ex.ncell; TS& t = ts[i];
                        if (!t.slot[s]) { t.slot[s] = new Guard(); int h = ex.begin_hold(i, c); Obj* p = t.slot[s]->protect(ex.cell[c]); ex.validated(h, p); t.hold[s] = h; t.ptr[s] = p; res = p ? (long)(W->find(p) - W->rec) : -1; }
                        break; }
                    case O_REL: {
                        int s = (int)op.a & 1; TS& t = ts[i];
                        if (t.slot[s]) { Ex<GC>::deref_ok(t.ptr[s], "held Guard", i); ex.releasing(t.hold[s]); if (op.b) t.slot[s]->clear(); delete t.slot[s]; t.slot[s] = nullptr; int h = t.hold[s]; t.hold[s] = -1; t.ptr[s] = nullptr; ctx.end_op(hi, 1); ex.ended(h); return; }
                        break; }
                    case O_DEREF: { int s = (int)op.a & 1; TS& t = ts[i]; if (t.slot[s]) { for (long k = 0; k < op.b; k++) dsim::point(dsim::K_USER); res = Ex<GC>::deref_ok(t.ptr[s], "held Guard", i); } break; }
                    case O_REPLACE: { int c = (int)op.a % ex.ncell; Obj* n = ex.fresh(c, op.b != 0); W->call_inv[sid] = dsim::now_step(); ex.unlink_and_retire(i, c, n); break; }
                    case O_CLEAR: { int c = (int)op.a % ex.ncell; W->call_inv[sid] = dsim::now_step(); ex.unlink_and_retire(i, c, nullptr); break; }
                    case O_BURST: { int c = (int)op.a % ex.ncell; for (long k = 0; k < op.b; k++) { Obj* n = ex.fresh(c, false); W->call_inv[sid] = dsim::now_step(); ex.unlink_and_retire(i, c, n); } break; }
                    case O_FLOOD: {   // DHP only: fill a whole retired block (256 cells) while most of the objects are guarded, so that the pass frees few of them and the retired array has to grow
                        int G = (int)op.a, N = (int)op.b; std::vector<Obj*> objs; std::vector<Guard*> gs; std::vector<int> hs;
                        ++dsim::t_bypass; objs.reserve(N); gs.reserve(G); hs.reserve(G); --dsim::t_bypass;
                        for (int k = 0; k < N; k++) { Obj* o = ex.fresh(1000 + W->nrec, false); if (!o) break; ++dsim::t_bypass; objs.push_back(o); --dsim::t_bypass; }
                        for (int k = 0; k < G && k < (int)objs.size(); k++) { Guard* g = new Guard(); g->assign(objs[k]); int h = ex.begin_hold(i, W->find(objs[k])->cell); ex.validated(h, objs[k]); ++dsim::t_bypass; gs.push_back(g); hs.push_back(h); --dsim::t_bypass; }
                        for (Obj* o : objs) { W->call_inv[sid] = dsim::now_step(); W->find(o)->unlink_step = dsim::now_step(); ex.retire(i, o); }
                        for (size_t k = 0; k < gs.size(); k++) { Ex<GC>::deref_ok(objs[k], "Guard::assign (flood)", i); ex.releasing(hs[k]); delete gs[k]; ex.ended(hs[k]); }
                        W->call_inv[sid] = dsim::now_step(); GC::scan(); ctx.probe("flood_ops"); res = N; break; }
                    case O_SCAN: { uint64_t a = dsim::now_step(); W->call_inv[sid] = a; if (op.a) GC::force_dispose(); else GC::scan(); ctx.probe("scan_ops"); ex.check_scan_freed(i, a); break; }
                    case O_REATTACH: { TS& t = ts[i]; if (!t.slot[0] && !t.slot[1]) { W->call_inv[sid] = dsim::now_step(); cds::threading::Manager::detachThread(); ++W->session[i]; cds::threading::Manager::attachThread(); ctx.probe("reattach"); res = 1; } break; }
                    }
                    ctx.end_op(hi, res);
                },
                [&](int i) {
                    TS& t = ts[i]; int sid = dsim::self_id() & 63;
                    for (int s = 0; s < 2; s++) if (t.slot[s]) { ex.releasing(t.hold[s]); delete t.slot[s]; t.slot[s] = nullptr; dsim::drain_self(); ex.ended(t.hold[s]); }
                    W->call_inv[sid] = dsim::now_step(); cds::threading::Manager::detachThread(); ++W->session[i];
                });
            // end of run: unlink and retire what is still in the cells (fault F5: singleton destroyed with pending retired objects)
            W->call_inv[dsim::self_id() & 63] = dsim::now_step();
            for (int c = 0; c < ex.ncell; c++) ex.unlink_and_retire(mainid, c, nullptr);
            if (P.knob("final_scan")) { W->call_inv[dsim::self_id() & 63] = dsim::now_step(); GC::scan(); }
        }
        W->call_inv[dsim::self_id() & 63] = dsim::now_step();
        if (P.knob("final_detach", 1)) cds::threading::Manager::detachThread();
        W->destructing = true;
        W->call_inv[dsim::self_id() & 63] = dsim::now_step();
        gc.reset();
        if (!P.knob("final_detach", 1)) cds::threading::Manager::detachThread();
    }
    int odd = 0;
    for (int i = 0; i < W->nrec; i++) {
        Rec& r = W->rec[i]; if (((uintptr_t)r.p) & 1) ++odd;
        if (r.state == RETIRED) { ctx.fail("never-disposed", "object #%d retired by client %d at step %llu was not disposed by destruction of the singleton", i, r.retired_by, (unsigned long long)r.retire_step); break; }
        if (r.state == DISPOSED && r.disposed_count != 1) { ctx.fail("double-dispose", "object #%d disposed %d times", i, r.disposed_count); break; }
    }
    ctx.probe("objects", W->nrec); ctx.probe("odd_address_objects", odd); ctx.probe("holds", W->nhold);
    W = nullptr;
}

// ---- program generation
void gen_common(Rng& r, Program& p, int tier, bool hp) {
    int nth = r.range(2, tier ? 4 : 3);
    int cells = r.range(1, 3);
    p.set("cells", cells); p.set("prefill", r.chance(850)); p.set("final_scan", r.below(2)); p.set("final_detach", r.chance(800));
    int H = 4;
    if (hp) {
        H = r.range(1, 6); int T = nth + 1 + r.below(3); int base = H * T;
        int R = r.pick({base + 1, base + 1, base + 2, 2 * base, 4 * base});
        p.set("H", H); p.set("T", T); p.set("R", R); p.set("classic", r.below(2));
    } else { p.set("init_guards", r.pick({4, 6, 12, 16})); H = 64; }
    bool odd = r.chance(300);
    p.threads.resize(nth);
    for (int t = 0; t < nth; t++) {
        if (t > 0 && r.chance(250)) p.threads[t].start_after = r.below(t);
        int nops = r.range(2, tier ? 8 : 6); bool writer = (t == 0) || r.chance(400);
        bool held[2] = {false, false};
        for (int k = 0; k < nops; k++) {
            int nheld = held[0] + held[1]; int x = r.below(100);
            if (!hp && nheld == 0 && r.chance(25)) { p.add(t, O_FLOOD, r.range(180, 256), 256 + r.below(64)); continue; }
            if (writer ? x < 55 : x < 15) { if (r.chance(120)) p.add(t, O_CLEAR, r.below(cells)); else if (r.chance(80)) p.add(t, O_BURST, r.below(cells), r.range(2, hp ? 6 : 12)); else p.add(t, O_REPLACE, r.below(cells), odd && r.chance(500)); }
            else if (x < (writer ? 70 : 25)) p.add(t, O_SCAN, r.below(2));
            else if (x < (writer ? 75 : 32) && nheld == 0) p.add(t, O_REATTACH);
            else if (x < 55 && nheld < 2 && H - nheld >= 2) { int s = held[0] ? 1 : 0; p.add(t, O_ACQ, s, r.below(cells)); held[s] = true; }
            else if (x < 65 && nheld > 0) { int s = held[0] ? 0 : 1; if (r.chance(300)) p.add(t, O_DEREF, s, r.below(4)); else { p.add(t, O_REL, s, r.below(2)); held[s] = false; } }
            else { int avail = H - nheld; if (avail >= 1) { int variant = r.below(5); if (variant == 4 && avail < 24) variant = r.below(4); if ((variant == 2 || variant == 3) && avail < 2) variant = r.below(2); p.add(t, O_READ, r.below(cells), r.pick({0, 1, 3, 8}), variant); } else p.add(t, O_SCAN, 0); }
        }
    }
}
void gen_hp(Rng& r, Program& p, int tier, const std::string&) { gen_common(r, p, tier, true); }
void gen_dhp(Rng& r, Program& p, int tier, const std::string&) {
    gen_common(r, p, tier, false);
}
void tune(dsim::Params& p, Rng& r, const Program&, const std::string&) {
    if (r.chance(300)) { p.tso_permille = r.pick({300, 600, 900}); p.tso_residency = r.pick({64, 512, 4096}); }
    p.soft_cap = 100000; p.hard_cap = 200000;
}
const char* comp = "real: src/hp.cpp src/dhp.cpp cds/gc/hp.h cds/gc/dhp.h cds/gc/details/hp_common.h cds/threading (attach/detach, thread exit); simulated: scheduler, atomics interleaving, x86-TSO store buffer, heap addresses (deterministic arena); harness: cells + disposer oracle";
const Subject s_hp = {"smr.HP", "C01,C03", gen_hp, run<cds::gc::HP>, nullptr, tune, opnames, comp};
const Subject s_dhp = {"smr.DHP", "C02,C03", gen_dhp, run<cds::gc::DHP>, nullptr, tune, opnames, comp};
Registrar r1(&s_hp), r2(&s_dhp);
} // namespace
