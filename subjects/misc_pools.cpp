// C24: vyukov_queue_pool, lazy_vyukov_queue_pool, bounded_vyukov_queue_pool and pool_allocator over each — an object is
// never handed to two holders, deallocated objects become available again (ownership-map oracle, checked online).
#include <cds/init.h>
#include <cds/memory/vyukov_queue_pool.h>
#include <cds/memory/pool_allocator.h>
#include <map>
#include <memory>
#include <new>
#include "../harness/core.h"

namespace dsim { extern thread_local int t_bypass; }
using namespace vh;
namespace {
enum { O_ALLOC = 0, O_FREE = 1 };
const char* const opnames[] = {"allocate", "deallocate", nullptr};
// constructor / destructor leave marks: the lazy pool destroys an object when it is deallocated and constructs it again when it is handed out,
// which must never overlap with another holder's use of the same object
struct Obj { long tag; long pad; Obj() : tag(0), pad(0) {} ~Obj() { *(volatile long*)&tag = -1; } };

struct Book {
    Ctx* ctx; std::map<void*, int> owner;   // currently allocated objects
    void got(void* p, int t) { auto it = owner.find(p); if (it != owner.end()) ctx->fail("allocated-twice", "allocate() by client %d returned object %p which client %d holds", t, p, it->second); owner[p] = t; ((Obj*)p)->tag = 1000 + t; }
    void giving(void* p, int t) { auto it = owner.find(p); if (it == owner.end() || it->second != t) ctx->fail("harness", "client %d frees an object it does not hold", t); else { if (((Obj*)p)->tag != 1000 + t) ctx->fail("object-overwritten", "object %p held by client %d was modified by somebody else (tag %ld)", p, t, ((Obj*)p)->tag); owner.erase(it); } }
};
template <class Pool> struct Direct {
    Pool pool; explicit Direct(const Program& p) : pool((size_t)p.knob("capacity", 2)) {}
    Obj* alloc() { return pool.allocate(1); }
    void free(Obj* p) { pool.deallocate(p, 1); }
};
// pool_allocator: the accessor functor returns a pool owned by the current run
template <class Pool> struct Acc { static Pool* cur; typedef typename Pool::value_type value_type; Pool& operator()() const { return *cur; } };
template <class Pool> Pool* Acc<Pool>::cur = nullptr;
template <class Pool> struct ViaAllocator {
    std::unique_ptr<Pool> pool; cds::memory::pool_allocator<Obj, Acc<Pool>> al;
    explicit ViaAllocator(const Program& p) : pool(new Pool((size_t)p.knob("capacity", 2))) { Acc<Pool>::cur = pool.get(); }
    ~ViaAllocator() { Acc<Pool>::cur = nullptr; }
    Obj* alloc() { return al.allocate(1); }
    void free(Obj* p) { al.deallocate(p, 1); }
};
template <class A, bool Bounded> void run(Ctx& ctx) {
    const Program& P = *ctx.prog; Book book; book.ctx = &ctx;
    {
        A a(P); long cap = P.knob("capacity", 2);
        std::vector<std::vector<Obj*>> mine(P.threads.size());
        ctx.run_clients(
            [&](int) {},
            [&](int t, const Op& op) {
                int h = ctx.begin_op(t, op); long res = 0;
                if (op.kind == O_ALLOC) {
                    Obj* p = nullptr;
                    if (Bounded) { try { p = a.alloc(); } catch (std::bad_alloc&) { p = nullptr; ctx.probe("bounded_pool_exhausted"); if ((long)book.owner.size() < cap && false) {} } }
                    else p = a.alloc();
                    if (p) { book.got(p, t); mine[t].push_back(p); res = 1; for (long k = 0; k < op.b; k++) dsim::point(dsim::K_USER); }
                } else if (!mine[t].empty()) { Obj* p = mine[t].front(); mine[t].erase(mine[t].begin()); book.giving(p, t); a.free(p); res = 1; }
                ctx.end_op(h, res);
            },
            [&](int t) { for (Obj* p : mine[t]) { book.giving(p, t); a.free(p); } mine[t].clear(); });
        // quiescence: everything was deallocated, so 'capacity' objects (bounded: exactly; others: at least) can be allocated again, all distinct
        std::vector<Obj*> again;
        for (long k = 0; k < cap; k++) { Obj* p = nullptr; try { p = a.alloc(); } catch (std::bad_alloc&) { p = nullptr; } if (!p) { ctx.fail("object-lost", "after every object was deallocated only %ld of %ld objects can be allocated again", k, cap); break; } book.got(p, 99); again.push_back(p); }
        for (Obj* p : again) { book.giving(p, 99); a.free(p); }
    }
}
void gen(Rng& r, Program& p, int tier, const std::string&) {
    int nth = r.range(2, tier ? 4 : 3); int cap = r.pick({2, 2, 4}); p.set("capacity", cap); p.threads.resize(nth);
    for (int t = 0; t < nth; t++) { if (t > 0 && r.chance(120)) p.threads[t].start_after = r.below(t); int nops = r.range(2, 8), held = 0; for (int k = 0; k < nops; k++) { bool al = held == 0 || r.chance(600); p.add(t, al ? O_ALLOC : O_FREE, 0, r.pick({0, 0, 2, 5})); held += al ? 1 : -1; } }
}
void tune(dsim::Params& p, Rng& r, const Program&, const std::string&) { p.f1_permille = r.pick({0, 20, 80, 200}); p.soft_cap = 60000; p.hard_cap = 120000; }
typedef cds::memory::vyukov_queue_pool<Obj> P1; typedef cds::memory::lazy_vyukov_queue_pool<Obj> P2; typedef cds::memory::bounded_vyukov_queue_pool<Obj> P3;
#define COMP(f) "real: " f " (over the real VyukovMPMCCycleQueue); simulated: scheduler, weak-CAS failures, stalls, thread churn; programs allocate up to and past capacity; oracle: online ownership map, object tags, quiescent re-allocation"
#define PL_SUBJECT(var, NAME, A, B, F) static const Subject var = {NAME, "C24", gen, run<A, B>, nullptr, tune, opnames, COMP(F)}; static Registrar var##_reg(&var);
PL_SUBJECT(p1, "misc.vyukov_queue_pool", Direct<P1>, false, "cds/memory/vyukov_queue_pool.h vyukov_queue_pool")
PL_SUBJECT(p2, "misc.lazy_vyukov_queue_pool", Direct<P2>, false, "cds/memory/vyukov_queue_pool.h lazy_vyukov_queue_pool")
PL_SUBJECT(p3, "misc.bounded_vyukov_queue_pool", Direct<P3>, true, "cds/memory/vyukov_queue_pool.h bounded_vyukov_queue_pool (exhaustion -> std::bad_alloc accepted)")
PL_SUBJECT(p4, "misc.pool_allocator_vyukov", ViaAllocator<P1>, false, "cds/memory/pool_allocator.h over vyukov_queue_pool")
PL_SUBJECT(p5, "misc.pool_allocator_lazy", ViaAllocator<P2>, false, "cds/memory/pool_allocator.h over lazy_vyukov_queue_pool")
PL_SUBJECT(p6, "misc.pool_allocator_bounded", ViaAllocator<P3>, true, "cds/memory/pool_allocator.h over bounded_vyukov_queue_pool")
} // namespace
