// Common runner for sequence-like containers (queues, stacks, deques, priority queues):
// program generation, execution under the simulator, history recording, linearizability check.
#pragma once
#include <cds/init.h>
#include <cds/gc/hp.h>
#include <cds/gc/dhp.h>
#include <cds/threading/model.h>
#include <memory>
#include "../harness/core.h"
#include "../harness/lin.h"

namespace dsim { extern thread_local int t_bypass; }

namespace seqc {
using namespace vh;

enum { PUSH = 0, POP = 1, PUSH_FRONT = 2, POP_BACK = 3, BARRIER = 4 };
static const char* const opnames[] = {"push", "pop", "push_front", "pop_back", "barrier", nullptr};

// ---- SMR set-up policies (constructed on simulated thread 0, destroyed at the end of the run)
struct SmrNone { explicit SmrNone(const Program&) {} static void eager() {} static void detach() { cds::threading::Manager::detachThread(); } static const char* name() { return "none"; } };
struct SmrHP {
    std::unique_ptr<cds::gc::HP> gc;
    explicit SmrHP(const Program& p) { gc.reset(new cds::gc::HP((size_t)p.knob("hp_H", 8), (size_t)p.knob("hp_T", 8), (size_t)p.knob("hp_R", 0), p.knob("hp_classic") ? cds::gc::HP::scan_type::classic : cds::gc::HP::scan_type::inplace)); }
    static void eager() { vh::EagerPass ep; cds::gc::HP::force_dispose(); }
    static void detach() { vh::EagerPass ep; cds::threading::Manager::detachThread(); }   // detaching scans too
    static const char* name() { return "HP"; }
};
struct SmrDHP {
    std::unique_ptr<cds::gc::DHP> gc;
    explicit SmrDHP(const Program& p) { gc.reset(new cds::gc::DHP((size_t)p.knob("dhp_init", 16))); }
    static void eager() { vh::EagerPass ep; cds::gc::DHP::force_dispose(); } static void detach() { vh::EagerPass ep; cds::threading::Manager::detachThread(); }
    static const char* name() { return "DHP"; }
};
template <class GC> struct SmrOf;
template <> struct SmrOf<cds::gc::HP> { typedef SmrHP type; };
template <> struct SmrOf<cds::gc::DHP> { typedef SmrDHP type; };

inline void smr_knobs(Rng& r, Program& p, int nthreads, int min_hazards) {
    int H = min_hazards + r.below(3), T = nthreads + 1 + r.below(2);
    p.set("hp_H", H); p.set("hp_T", T); p.set("hp_R", r.pick({H * T + 1, H * T + 2, 2 * H * T})); p.set("hp_classic", r.chance(250));
    p.set("dhp_init", r.pick({4, 16})); p.set("eager", r.pick({0, 100, 300, 600}));
}

// Adapter concept:
//   typedef ... Smr;  static const SeqModel::Kind kind;  static const bool has_front_back;
//   A(const Program&);  bool push(long v, int form);  bool pop(long& v, int form);  [push_front / pop_back]
//   long capacity();  (-1 unbounded)   static void gen_knobs(Rng&, Program&);   void probes(Ctx&);

struct GenCfg { int max_threads_quick = 3, max_threads_thorough = 4, max_ops = 5, max_prefill = 3, push_permille = 500; bool deque = false; bool prio = false; bool phased = false; int push_forms = 1, pop_forms = 1; int min_hazards = 4; };

inline void gen_program(Rng& r, Program& p, int tier, const GenCfg& g0) {
    GenCfg g = g0; bool c20 = current_prop() == "C20";
    if (c20) { g.max_threads_quick = g.max_threads_thorough = 1; g.max_ops = 30; }
    int nth = c20 ? 1 : r.range(2, tier ? g.max_threads_thorough : g.max_threads_quick);
    p.set("prefill", r.below(g.max_prefill + 1));
    smr_knobs(r, p, nth, g.min_hazards);
    p.threads.resize(nth);
    int total = 0;
    for (int t = 0; t < nth; t++) {
        if (t > 0 && r.chance(150)) p.threads[t].start_after = r.below(t);
        int nops = c20 ? r.range(8, g.max_ops) : r.range(1, g.max_ops);
        int bias = r.pick({g.push_permille, g.push_permille, 200, 800});
        for (int k = 0; k < nops && total < (c20 ? 30 : 16); k++, total++) {
            bool push = r.chance(bias);
            int kind = push ? PUSH : POP;
            if (g.deque && r.chance(500)) kind = push ? PUSH_FRONT : POP_BACK;
            long val = (t + 1) * 100 + k;
            if (g.prio) val = (long)r.below(4) * 1000 + val;
            p.add(t, kind, push ? val : 0, r.below(push ? g.push_forms : g.pop_forms));
        }
    }
}

template <class A> void run(Ctx& ctx) {
    const Program& P = *ctx.prog;
    std::function<void(Ctx&)> post;
    {
    typename A::Smr smr(P);
    cds::threading::Manager::attachThread();
    {
        A a(P);
        ctx.aux[0] = a.capacity(); ctx.aux[1] = a.model_override(P);
        Op o; int nid = 1000;
        for (long i = 0; i < P.knob("prefill"); i++) { o = Op(); o.id = nid++; o.kind = PUSH; o.a = 10 + i; int h = ctx.begin_op(99, o); bool ok = a.push(o.a, 0); ctx.end_op(h, ok); }
        int eager = (int)P.knob("eager");
        ctx.run_clients(
            [&](int) { cds::threading::Manager::attachThread(); },
            [&](int i, const Op& op) {
                if (op.kind == BARRIER) { dsim::set_op(op.id); dsim::barrier((int)op.a, (int)op.b); return; }
                int h = ctx.begin_op(i, op); long v = -1; bool ok = false;
                switch (op.kind) {
                case PUSH: ok = a.push(op.a, (int)op.b); break;
                case POP: ok = a.pop(v, (int)op.b); break;
                case PUSH_FRONT: ok = a.push_front(op.a, (int)op.b); break;
                case POP_BACK: ok = a.pop_back(v, (int)op.b); break;
                }
                ctx.end_op(h, ok, v);
                if (eager && dsim::decide(dsim::D_EAGER, eager)) { A::Smr::eager(); ctx.probe("F10_eager_reclaim"); }
            },
            [&](int) { A::Smr::detach(); });
        // quiescent drain, recorded as part of the history
        for (int k = 0; k < 64; k++) { o = Op(); o.id = nid++; o.kind = POP; int h = ctx.begin_op(99, o); long v = -1; bool ok = a.pop(v, 0); ctx.end_op(h, ok, v); if (!ok) break; }
        a.probes(ctx);
        post = a.post_check();
    }
    cds::threading::Manager::detachThread();
    }
    if (post) post(ctx);   // after the SMR singleton is gone
}

template <class A> void check(Ctx& ctx) {
    SeqModel m(ctx.aux[1] > 0 ? (SeqModel::Kind)(ctx.aux[1] - 1) : A::kind, ctx.aux[0], ctx.aux[1] > 0 ? false : A::pop_empty_unconstrained);
    LinChecker<SeqModel> lc(m, ctx.hist);
    LinResult r = lc.check(SeqModel::State());
    ctx.probe("lin_nodes", r.nodes);
    if (r.inconclusive) { ctx.probe("lin_inconclusive"); return; }
    if (!r.ok) ctx.fail("not-linearizable", "history of %d operations is not linearizable to the sequential %s model: %s", (int)ctx.hist.size(),
                        m.kind == SeqModel::FIFO ? "FIFO" : m.kind == SeqModel::LIFO ? "LIFO" : m.kind == SeqModel::DEQUE ? "deque" : m.kind == SeqModel::PQMAX ? "max-priority-queue" : "bag", describe_history(ctx.hist, opnames, 24).c_str());
}

inline void tune_default(dsim::Params& p, Rng& r, const Program&, const std::string& prop) { if (prop == "C20") p.f1_permille = r.pick({0, 20, 100, 200}); p.soft_cap = 150000; p.hard_cap = 300000; p.f8_permille = r.pick({0, 0, 5, 30}); p.f6_permille = r.pick({0, 0, 10}); }

} // namespace seqc

#define SEQ_SUBJECT(var, NAME, PROPS, ADAPTER, GENFN, COMP) \
    static const vh::Subject var = {NAME, PROPS, GENFN, seqc::run<ADAPTER>, seqc::check<ADAPTER>, seqc::tune_default, seqc::opnames, COMP}; \
    static vh::Registrar var##_reg(&var);
