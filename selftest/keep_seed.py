#!/usr/bin/env python3
# keep_seed.py <worktree seed dir> <name> <property> <needs> <tests run> <detected_by>  -- stores a confirmed seeded change under /verif/seeded/<name>/
import sys, os, shutil, json, re
src, name, prop, needs, tests, detected = sys.argv[1:7]
dst = os.path.join(os.path.dirname(os.path.abspath(__file__)), "..", "seeded", name)
os.makedirs(dst, exist_ok=True)
for f in ("patch.diff", "demo.cpp", "notes.md", "flags", "libs"):
    if os.path.exists(os.path.join(src, f)): shutil.copy(os.path.join(src, f), dst)
ver = open(os.path.join(src, "verify.out")).read().strip() if os.path.exists(os.path.join(src, "verify.out")) else ""
files = sorted(set(re.findall(r"^\+\+\+ b/(\S+)", open(os.path.join(dst, "patch.diff")).read(), re.M)))
meta = {"property": prop, "files_changed": files, "needs_to_manifest": needs,
        "confirmed_by_me": {"how": "selftest/verify_seed.sh in a scratch git worktree of /repo under /tmp (demo built against clean and patched tree; unit-test targets built and run with the patch)", "unit_tests_with_patch": tests, "result": ver},
        "demo": "demo.cpp: g++ -std=c++11 -O2 -g -mcx16 -pthread $(cat flags) -I<tree> demo.cpp <tree>/src/*.cpp -lboost_thread -lboost_system -lpthread $(cat libs); exit 0 = property held",
        "detected_by": detected, "origin": "written by a sub-agent that saw only the property text and a scratch worktree, nothing from /verif"}
json.dump(meta, open(os.path.join(dst, "meta.json"), "w"), indent=1)
print("kept", dst)
