#!/bin/bash
# Runs every (patch, property) pair of selftest/mutants.txt [and selftest/seeded.txt]; prints DETECTED / MISSED per pair.
cd "$(dirname "$0")"; tier=${1:-quick}; miss=0
for list in mutants.txt seeded.txt; do [ -f $list ] || continue
  grep -v '^#' $list | while read patch prop rest; do [ -z "$patch" ] && continue
    f=mutants/$patch; [ -f "$f" ] || f=../seeded/$patch
    SELFTEST_TAIL=1 ./selftest.sh "$f" $prop $tier > /tmp/selftest.$$.log 2>&1; rc=$?
    if [ $rc -eq 1 ]; then echo "DETECTED $prop $patch"; else echo "MISSED($rc) $prop $patch"; fi
  done
done
rm -f /tmp/selftest.$$.log
