#!/bin/bash
# Sensitivity suite: runs every (patch, property, tier) triple of selftest/mutants.txt (reverse patches of the "fix:" commits = the real
# defects of the original tree) and selftest/seeded.txt (changes seeded by sub-agents) against a scratch copy of /repo's sources and
# writes selftest/RESULTS.md.  DETECTED = the check exited 1 with a VIOLATION line; anything else is listed as MISSED(<exit code>).
cd "$(dirname "$0")"; out=RESULTS.md.tmp; : > $out
echo "| change | property | tier | result |" >> $out; echo "|---|---|---|---|" >> $out
for list in mutants.txt seeded.txt; do [ -f $list ] || continue
  grep -v '^#' $list | while read patch prop tier only; do [ -z "$patch" ] && continue
    f=mutants/$patch; [ -f "$f" ] || f=../seeded/$patch; tier=${tier:-quick}
    VERIF_ONLY="$only" SELFTEST_TAIL=3 ./selftest.sh "$f" $prop $tier > /tmp/selftest.$$.log 2>&1; rc=$?
    what=$(grep -m1 "class=" /tmp/selftest.$$.log | sed 's/ detail=.*//; s/^ *//')
    if [ $rc -eq 1 ]; then res="DETECTED ($what)"; else res="MISSED($rc)"; fi
    echo "$res $prop $tier $patch"; echo "| ${patch%/patch.diff} | $prop | $tier | $res |" >> $out
  done
done
mv $out RESULTS.md; rm -f /tmp/selftest.$$.log
