#!/bin/bash
# run_some.sh <grep pattern>: like run_all.sh for the matching lines of mutants.txt / seeded.txt only; prints table rows (append them to RESULTS.md)
cd "$(dirname "$0")"
for list in mutants.txt seeded.txt; do
  grep -v '^#' $list | grep -E "$1" | while read patch prop tier only; do [ -z "$patch" ] && continue
    f=mutants/$patch; [ -f "$f" ] || f=../seeded/$patch; tier=${tier:-quick}
    VERIF_ONLY="$only" SELFTEST_TAIL=3 ./selftest.sh "$f" $prop $tier > /tmp/selftest.$$.log 2>&1; rc=$?
    what=$(grep -m1 "class=" /tmp/selftest.$$.log | sed 's/ detail=.*//; s/^ *//')
    if [ $rc -eq 1 ]; then res="DETECTED ($what)"; else res="MISSED($rc)"; fi
    echo "| ${patch%/patch.diff} | $prop | $tier | $res |"
  done
done
rm -f /tmp/selftest.$$.log
