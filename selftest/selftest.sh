#!/bin/bash
# selftest.sh <patch.diff> <PROPERTY> [quick|thorough] : sensitivity test of one check against one library change.
# Copies the library sources of /repo (cds/ and src/ only) to a scratch directory outside /repo and /verif, applies the patch,
# runs the property's check against the scratch copy (REPO=<scratch>) and removes the scratch copy and its build output again.
# Exit code: that of the check (1 = the change was detected).
set -u
patch=$(readlink -f "$1"); prop=$2; tier=${3:-quick}
verif=$(cd "$(dirname "$0")/.." && pwd)
scratch=$(mktemp -d /tmp/vscratch.XXXXXX)
mkdir -p "$scratch/repo" && cp -r /repo/cds /repo/src "$scratch/repo/" || exit 2
( cd "$scratch/repo" && git init -q . >/dev/null 2>&1; git apply --whitespace=nowarn "$patch" ) || { echo "selftest: patch does not apply"; rm -rf "$scratch"; exit 2; }
export VERIF_BUILD="$scratch/build" VERIF_OUT="$scratch/out"   # evidence/ and replays/ of a selftest never touch /verif
REPO="$scratch/repo" VERIF_REPLAY_KEEP=1 "$verif/run_check" "$prop" "$tier" 2>&1 | grep -v "^run_check" | tail -${SELFTEST_TAIL:-6}
rc=${PIPESTATUS[0]}
rm -rf "$scratch"
echo "selftest: patch=$(basename "$patch") property=$prop tier=$tier exit=$rc"
exit $rc
