#!/bin/bash
# verify_seed.sh <worktree> <seed dir with patch.diff demo.cpp> <unit-test targets...>
# Confirms a seeded change in a scratch worktree: demo passes on the clean tree, fails with the patch; the library's own unit tests
# (given targets) build and pass with the patch. Leaves the worktree clean; the caller removes _build. Prints one summary line.
W=$1; M=$2; shift 2; T="$@"
cd $W || exit 2; git checkout -q -- . ; log=$M/verify.log; : > $log
build_demo() { g++ -std=c++11 -O2 -g -mcx16 -pthread $(cat $M/flags 2>/dev/null) -I$W $M/demo.cpp $W/src/*.cpp -o $M/demo.$1 -lboost_thread -lboost_system -lpthread $(cat $M/libs 2>/dev/null) >> $log 2>&1; }
build_demo clean || { echo "VERIFY $M: demo does not build on the clean tree"; exit 2; }
clean_ok=1; for i in 1 2 3; do timeout 300 $M/demo.clean >> $log 2>&1 || clean_ok=0; done
git apply --whitespace=nowarn $M/patch.diff || { echo "VERIFY $M: patch does not apply"; exit 2; }
build_demo mut || { git checkout -q -- .; echo "VERIFY $M: demo/library does not compile with the patch"; exit 2; }
timeout 300 $M/demo.mut >> $log 2>&1; mut_rc=$?
tests_ok=1
if [ -n "$T" ]; then
  cmake -G Ninja -S $W -B $W/_build -DCMAKE_BUILD_TYPE=RelWithDebInfo -DCMAKE_CXX_FLAGS=-Wno-error -DLIBCDS_WITH_TESTS=ON -DLIBCDS_ENABLE_UNIT_TEST=ON -DLIBCDS_ENABLE_STRESS_TEST=OFF -DFETCHCONTENT_SOURCE_DIR_GTEST=/usr/src/googletest >> $log 2>&1
  nice ninja -C $W/_build -j${JOBS:-6} $T >> $log 2>&1 || tests_ok=0
  for t in $T; do ( cd $W/_build/bin && timeout 1200 ./$t ) > $M/test.$t.log 2>&1 || tests_ok=0; tail -3 $M/test.$t.log >> $log; done
fi
git checkout -q -- .; rm -f $M/demo.clean $M/demo.mut
echo "VERIFY $M: demo_clean_pass=$clean_ok demo_mutated_rc=$mut_rc tests_pass=$tests_ok targets=[$T]"
