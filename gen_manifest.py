#!/usr/bin/env python3
"""Regenerates MANIFEST.json from checks.py (run after editing checks.py)."""
import json, os, subprocess, sys
sys.path.insert(0, os.path.dirname(os.path.abspath(__file__)))
from checks import CHECKS, NOT_APPLICABLE

def hook_commits():
    try:
        out = subprocess.run(["git", "-C", "/repo", "log", "--format=%h %s"], stdout=subprocess.PIPE, text=True).stdout
        return [l.split()[0] for l in out.splitlines() if "verif hook" in l][::-1]
    except Exception:
        return []

m = {
    "version": 1,
    "setup_cmd": "make -C /verif -j16 setup",
    "hooks": {
        "guard": "KHIZMAX_LIBCDS_VERIF",
        "enable": "checks compile /repo/src/*.cpp and the headers of /repo's working tree with -DKHIZMAX_LIBCDS_VERIF -I/verif/include (see /verif/Makefile); H1 = cds/algo/atomic.h selects cds_verif::atomics, H2 = spin hint in cds/compiler/gcc/{amd64,x86}/backoff.h",
        "baseline_off_cmd": "cmake --build /repo/_build && ctest --test-dir /repo/_build -j8 --timeout 900",
        "source_commits": hook_commits(),
        "add_only": True,
    },
    "engines": [{"name": "dsim", "path": "/verif/dsim", "serves_properties": sorted(CHECKS.keys()),
                 "kind_free_text": "deterministic simulator: real pthreads released one at a time at instrumented atomic / pthread / clock / signal / heap seams; seeded strategies (random walk, PCT, single pre-emption, stall); fault injection (weak-CAS failure, x86-TSO store buffer, stalls, thread churn, spurious wake-ups, delayed signals, early time-outs, eager reclamation, minimal capacities); decision-level record/replay and minimisation"}],
    "checks": [],
    "not_applicable": NOT_APPLICABLE + [{"property_id": json.loads(l)["id"], "reason": "check not built yet (work in progress; see DESIGN.md section 6 for the plan)"}
                       for l in open(os.path.join(os.path.dirname(os.path.abspath(__file__)), "properties.jsonl"))
                       if json.loads(l)["id"] not in CHECKS and json.loads(l)["id"] not in [n["property_id"] for n in NOT_APPLICABLE]],
    "notes": "All checks share one driver: ./run_check <id> <quick|thorough>. Exit 0 = held (KNOWN-FINDING lines allowed), 1 = VIOLATION line(s) with a minimised replay file, 2 = harness/build/nondeterminism error. Replay: python3 replay.py <file> [--trace] (rebuilds the right binary first). Known findings and the record of repaired defects: known_findings.txt (read only, never written at run time; replays in findings/). Sensitivity suite: selftest/run_all.sh over selftest/mutants (reverse patches of the fix: commits) and seeded/ (79 seeded changes with demos and meta.json); results in selftest/RESULTS.md.",
}
for pid in sorted(CHECKS):
    c = CHECKS[pid]
    m["checks"].append({
        "property_id": pid,
        "quick_cmd": "./run_check %s quick" % pid,
        "thorough_cmd": "./run_check %s thorough" % pid,
        "evidence_file": "/verif/evidence/%s.json" % pid,
        "replay_cmd_template": "python3 /verif/replay.py {path}",
        "engine": "dsim",
        "level_claimed": {"category": "exploration",
                          "text": c.get("level_text", "Seeded search over schedules and fault sequences of the real library code under a deterministic simulator; every run is checked by an online/history oracle for this property. A clean batch is evidence, not proof."),
                          "design_ref": c.get("design_ref", "DESIGN.md §6")},
        "level_note": c.get("level_note", "Trusted: the simulator (dsim), the instrumented atomic header, the oracle/model code in /verif/subjects and /verif/harness. Memory model: SC, plus a sound subset of x86-TSO where fault F2 is on. Bounded programs (2-4 threads, <= ~8 ops per thread)."),
        "technique": c["technique"],
    })
json.dump(m, open(os.path.join(os.path.dirname(os.path.abspath(__file__)), "MANIFEST.json"), "w"), indent=1)
print("MANIFEST.json: %d checks, %d not applicable" % (len(m["checks"]), len(NOT_APPLICABLE)))
