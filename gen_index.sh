#!/bin/bash
# Regenerates subjects_index.py from the built binaries (run after adding subjects).
cd "$(dirname "$0")"; make -j16 >/dev/null || exit 2
for b in build/fast/sim_*; do $b --list; done | python3 -c "
import sys
names=[l.split()[0] for l in sys.stdin if l.strip()]
g={}
for n in names: g.setdefault(n.split('.')[0],[]).append(n)
f=open('subjects_index.py','w'); f.write('# Generated from build/fast/sim_<group> --list (see gen_index.sh): every registered subject per binary group.\nSUBJECTS = {\n')
for k in sorted(g): f.write('    %r: %r,\n' % (k, g[k]))
f.write('}\n')"
