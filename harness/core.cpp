#include "core.h"
#include <pthread.h>
#include <signal.h>
#include <unistd.h>
#include <sched.h>
#include <sys/stat.h>
#include <cstdio>
#include <cstdlib>
#include <cstring>
#include <exception>
#include <sstream>
#include <thread>
#include <chrono>

namespace dsim { extern thread_local int t_bypass; }

namespace smc { int g_hash_mode = 0; }   // per-run hashing knob of the set/map subjects (one definition per binary)
namespace smc { struct IBase; std::vector<IBase*>* g_ipool = nullptr; const vh::Ctx* g_consistency_ctx = nullptr; bool g_exclusive_functors = false; bool g_with_pred = false; int g_functor_occupancy[64]; }   // node pool of the intrusive set subjects (subjects/intrusive_common.h)

namespace vh {
bool g_atomic_eager_pass = true;

// ------------------------------------------------------------------ registry
static std::vector<const Subject*>& reg() { static std::vector<const Subject*> v; return v; }
void register_subject(const Subject* s) { reg().push_back(s); }
const std::vector<const Subject*>& all_subjects() { return reg(); }
const Subject* find_subject(const std::string& name) { for (auto s : reg()) if (name == s->name) return s; return nullptr; }

// ------------------------------------------------------------------ Ctx
void Ctx::fail(const char* cls, const char* fmt, ...) {
    char buf[512]; va_list ap; va_start(ap, fmt); vsnprintf(buf, sizeof buf, fmt, ap); va_end(ap);
    ++dsim::t_bypass; if (viol.size() < 16) viol.push_back(Violation{cls, buf}); --dsim::t_bypass;
}
void Ctx::probe(const char* name, long n) { ++dsim::t_bypass; probes[name] += n; --dsim::t_bypass; }
int Ctx::begin_op(int thread, const Op& op) {
    Event e; e.thread = thread; e.opid = op.id; e.kind = op.kind; e.a = op.a; e.b = op.b; e.c = op.c;
    e.inv = dsim::op_invoke(op.id);
    ++dsim::t_bypass; hist.push_back(e); --dsim::t_bypass;
    return (int)hist.size() - 1;
}
void Ctx::end_op(int idx, long r, long r2, long r3) {
    uint64_t st = dsim::op_return();
    Event& e = hist[idx]; e.r = r; e.r2 = r2; e.r3 = r3; e.ret = st; e.done = true;
}
void Ctx::run_clients(const std::function<void(int)>& begin, const std::function<void(int, const Op&)>& op, const std::function<void(int)>& end) {
    int n = (int)prog->threads.size();
    ++dsim::t_bypass; client_tid.assign(n, -1); --dsim::t_bypass;
    std::vector<std::thread> ts; ts.reserve(n);
    dsim::set_op(-4);
    dsim::sequential(false);
    for (int i = 0; i < n; i++) {
        client_tid[i] = dsim::thread_count();
        ts.emplace_back([this, i, &begin, &op, &end] {
            int after = prog->threads[i].start_after;
            if (after >= 0 && after < i) dsim::wait_thread_finished(client_tid[after]);
            dsim::mark_client(true, i);
            dsim::set_op(-5); begin(i);
            for (const Op& o : prog->threads[i].ops) op(i, o);
            dsim::set_op(-6); end(i);
            dsim::mark_client(false);
        });
    }
    for (auto& t : ts) t.join();
    dsim::sequential(true); dsim::faults_enabled(false); dsim::set_op(-7);
}

// ------------------------------------------------------------------ program / replay text
struct Replay {
    std::string subject, prop; uint64_t seed = 0; int tier = 0;
    Program prog; std::vector<dsim::Dec> decs; bool has_decs = false;
    uint64_t soft_cap = 200000, hard_cap = 400000; int arena_delay = 0; int use_arena = 1;
    std::string expect_cls, detail; uint64_t expect_hash = 0, expect_steps = 0;
};
static std::string render_program(const Replay& r) {
    std::ostringstream o;
    o << "dsim-replay 1\nsubject " << r.subject << "\nprop " << r.prop << "\nseed " << r.seed << "\ntier " << r.tier << "\n";
    o << "param soft_cap " << r.soft_cap << "\nparam hard_cap " << r.hard_cap << "\nparam arena_delay " << r.arena_delay << "\nparam use_arena " << r.use_arena << "\n";
    for (auto& k : r.prog.knobs) o << "knob " << k.first << " " << k.second << "\n";
    for (size_t i = 0; i < r.prog.threads.size(); i++) {
        o << "thread " << i << " " << r.prog.threads[i].start_after << "\n";
        for (auto& op : r.prog.threads[i].ops) o << "op " << i << " " << op.id << " " << op.kind << " " << op.a << " " << op.b << " " << op.c << "\n";
    }
    return o.str();
}
static std::string render_decs(const std::vector<dsim::Dec>& d) {
    std::string s; char b[96];
    for (auto& x : d) { snprintf(b, sizeof b, "dec %d %d %d %d %ld\n", x.tid, x.op, x.ord, x.kind, x.val); s += b; }
    return s;
}
static bool parse_replay(const char* path, Replay& r) {
    FILE* f = fopen(path, "r"); if (!f) return false;
    char line[1024]; r.has_decs = false;
    while (fgets(line, sizeof line, f)) {
        char w[64]; int n = 0; if (sscanf(line, "%63s%n", w, &n) != 1) continue; const char* rest = line + n; while (*rest == ' ') ++rest;
        std::string k = w; std::string v = rest; while (!v.empty() && (v.back() == '\n' || v.back() == '\r')) v.pop_back();
        if (k == "subject") r.subject = v; else if (k == "prop") r.prop = v; else if (k == "seed") r.seed = strtoull(v.c_str(), nullptr, 10); else if (k == "tier") r.tier = atoi(v.c_str());
        else if (k == "param") { char nm[64]; unsigned long long x; if (sscanf(rest, "%63s %llu", nm, &x) == 2) { std::string s = nm; if (s == "soft_cap") r.soft_cap = x; else if (s == "hard_cap") r.hard_cap = x; else if (s == "arena_delay") r.arena_delay = (int)x; else if (s == "use_arena") r.use_arena = (int)x; } }
        else if (k == "knob") { char nm[64]; long x; if (sscanf(rest, "%63s %ld", nm, &x) == 2) r.prog.set(nm, x); }
        else if (k == "thread") { int i, sa; if (sscanf(rest, "%d %d", &i, &sa) == 2) { if ((int)r.prog.threads.size() <= i) r.prog.threads.resize(i + 1); r.prog.threads[i].start_after = sa; } }
        else if (k == "op") { int i; Op o; if (sscanf(rest, "%d %d %d %ld %ld %ld", &i, &o.id, &o.kind, &o.a, &o.b, &o.c) == 6) { if ((int)r.prog.threads.size() <= i) r.prog.threads.resize(i + 1); r.prog.threads[i].ops.push_back(o); if (o.id >= r.prog.next_id) r.prog.next_id = o.id + 1; } }
        else if (k == "dec") { dsim::Dec d; if (sscanf(rest, "%d %d %d %d %ld", &d.tid, &d.op, &d.ord, &d.kind, &d.val) == 5) r.decs.push_back(d); r.has_decs = true; }
        else if (k == "decisions") r.has_decs = true;
        else if (k == "expect") { char c[64]; unsigned long long h, s; if (sscanf(rest, "%63s %llx %llu", c, &h, &s) == 3) { r.expect_cls = c; r.expect_hash = h; r.expect_steps = s; } }
        else if (k == "detail") r.detail = v;
    }
    fclose(f); return !r.subject.empty();
}

// ------------------------------------------------------------------ one run
struct RunResult {
    std::string cls = "ok", detail; dsim::Stats st; std::vector<dsim::Dec> decs; std::vector<Event> hist; std::map<std::string, long> probes;
    dsim::Params params; int nviol = 0; bool nontrivial = false; int ops_done = 0;
};
static std::string g_prop_now;
const std::string& current_prop() { return g_prop_now; }
static uint64_t mix64(uint64_t x) { x ^= x >> 33; x *= 0xff51afd7ed558ccdULL; x ^= x >> 33; x *= 0xc4ceb9fe1a85ec53ULL; x ^= x >> 33; return x; }
static uint64_t fnv(const std::string& s) { uint64_t h = 1469598103934665603ULL; for (unsigned char c : s) h = (h ^ c) * 1099511628211ULL; return h; }
uint64_t run_seed(uint64_t verif_seed, const std::string& prop, const std::string& subject, uint64_t index) {
    return mix64(mix64(verif_seed * 0x9E3779B97F4A7C15ULL + fnv(prop)) ^ mix64(fnv(subject) + index * 0xD1342543DE82EF95ULL)) >> 1;
}

static dsim::Params make_params(const Subject* sj, uint64_t runseed, const Program& prog, const std::string& prop) {
    dsim::Params p; Rng r(runseed ^ 0x5bd1e9955bd1e995ULL);
    p.seed = runseed; g_prop_now = prop;
    int w = r.below(100);
    p.strategy = w < 30 ? dsim::S_RW : w < 50 ? dsim::S_PCT : w < 70 ? dsim::S_PRE1 : dsim::S_STALL;
    p.rw_permille = r.pick({20, 50, 100, 200, 400});
    p.pct_depth = r.range(1, 4); p.expected_steps = r.pick({300, 1000, 3000, 10000});
    int nth = (int)prog.threads.size(); if (nth < 1) nth = 1;
    p.stall_victim = r.below(nth); p.stall_at = 1 + r.below(r.pick({10, 60, 300})); p.stall_len = r.pick({100, 400, 2000, 20000});
    p.pre1_victim = r.below(nth); { int no = (int)prog.threads[p.pre1_victim < (int)prog.threads.size() ? p.pre1_victim : 0].ops.size(); p.pre1_op = r.below(no > 0 ? no : 1); }
    p.pre1_ord = 1 + r.below(r.pick({8, 32, 128})); p.pre1_mode = r.below(3); p.pre1_m = r.pick({20, 100, 500});
    p.f1_permille = r.pick({0, 0, 20, 50, 150});
    p.arena_delay = r.pick({0, 0, 0, 4, 16});
    if (sj->tune) sj->tune(p, r, prog, prop);
    return p;
}

struct Job { const Subject* sj; Ctx* ctx; dsim::Params* params; uint64_t runseed; std::string* exc; };
static void* t0_main(void* a) {
    Job* j = (Job*)a;
    srand((unsigned)(j->runseed * 2654435761u + 12345u));
    dsim::begin(*j->params);
    try { j->sj->run(*j->ctx); }
    catch (std::exception& e) { ++dsim::t_bypass; *j->exc = e.what(); --dsim::t_bypass; }
    catch (...) { ++dsim::t_bypass; *j->exc = "unknown exception"; --dsim::t_bypass; }
    dsim::end();
    return nullptr;
}

// state visible to the fatal / crash handlers
static std::string g_cur_header; static std::string g_cur_out; static bool g_replay_mode; static std::string g_unit_tag; static volatile bool g_in_run;
static std::string g_replay_dir = "replays"; static unsigned long long g_cur_index;

static void write_text(const std::string& path, const std::string& a, const std::string& b, const std::string& c) {
    FILE* f = fopen(path.c_str(), "w"); if (!f) return; fwrite(a.data(), 1, a.size(), f); fwrite(b.data(), 1, b.size(), f); fwrite(c.data(), 1, c.size(), f); fclose(f);
}
[[noreturn]] static void on_fatal(const char* cls, const char* detail) {
    static volatile int once = 0; if (once++) _exit(3);
    ++dsim::t_bypass;
    const dsim::Stats& st = dsim::stats();
    char tail[1400]; snprintf(tail, sizeof tail, "expect %s %llx %llu\ndetail %.1200s\n", cls, (unsigned long long)st.trace_hash, (unsigned long long)st.steps, detail);
    if (g_replay_mode) { printf("RESULT class=%s hash=%llx steps=%llu detail=%s\n", cls, (unsigned long long)st.trace_hash, (unsigned long long)st.steps, detail); fflush(stdout); _exit(1); }
    std::string decs = render_decs(dsim::decisions());
    write_text(g_cur_out, g_cur_header, "decisions\n" + decs, tail);
    printf("F %s %s %s %llu\n", g_unit_tag.c_str(), cls, g_cur_out.c_str(), g_cur_index); fflush(stdout);
    _exit(3);
}
static void crash_handler(int sig) {
    if (!g_in_run) { signal(sig, SIG_DFL); raise(sig); return; }
    char d[64]; snprintf(d, sizeof d, "signal %d", sig); on_fatal("crash", d);
}
static void install_crash_handlers() {
    static char altstack[1 << 16]; stack_t ss; ss.ss_sp = altstack; ss.ss_size = sizeof altstack; ss.ss_flags = 0; sigaltstack(&ss, nullptr);
    struct sigaction sa; memset(&sa, 0, sizeof sa); sa.sa_handler = crash_handler; sigemptyset(&sa.sa_mask); sa.sa_flags = SA_NODEFER;
    for (int s : {SIGSEGV, SIGBUS, SIGABRT, SIGFPE, SIGILL}) sigaction(s, &sa, nullptr);
}

static void run_one(const Subject* sj, const Replay& rp, const std::vector<dsim::Dec>* script, bool warmup, bool trace, RunResult& out) {
    Ctx ctx; ctx.prog = &rp.prog; ctx.prop = rp.prop; ctx.tier = rp.tier; ctx.hist.reserve(64);
    dsim::Params p = make_params(sj, rp.seed, rp.prog, rp.prop);
    if (script) { p.script = script; p.soft_cap = rp.soft_cap; p.hard_cap = rp.hard_cap; p.arena_delay = rp.arena_delay; p.use_arena = rp.use_arena != 0; }
    if (warmup) p.use_arena = false;
    p.trace = trace;
    std::string exc; Job j{sj, &ctx, &p, rp.seed, &exc};
    g_in_run = true;
    pthread_t t; pthread_attr_t at; pthread_attr_init(&at); pthread_attr_setstacksize(&at, 4u << 20);
    if (pthread_create(&t, &at, t0_main, &j) != 0) { fprintf(stderr, "cannot create run thread\n"); _exit(2); }
    pthread_attr_destroy(&at);
    pthread_join(t, nullptr);
    g_in_run = false;
    out.st = dsim::stats(); out.decs = dsim::decisions(); out.params = p;
    if (!exc.empty()) ctx.fail("exception", "%s", exc.c_str());
    if (out.st.uaf && ctx.viol.empty()) ctx.fail("use-after-free", "%llu atomic operation(s) on memory that had been given back to the allocator; first: kind %d at %p by t%d at step %llu", (unsigned long long)out.st.uaf, out.st.uaf_kind, out.st.uaf_addr, out.st.uaf_thread, (unsigned long long)out.st.uaf_step);
    if (ctx.viol.empty() && sj->check) sj->check(ctx);
    out.hist = ctx.hist; out.probes = ctx.probes; out.nviol = (int)ctx.viol.size();
    for (auto& e : ctx.hist) if (e.done) ++out.ops_done;
    if (!ctx.viol.empty()) { out.cls = ctx.viol[0].cls; out.detail = ctx.viol[0].detail; }
    out.nontrivial = out.st.max_concurrent >= 2 && out.st.preemptions >= 1;
    if (rp.prop == "C20") {   // single-threaded property: a run is non-trivial if it made at least 3 API calls; its signature is the call/result sequence
        out.nontrivial = out.ops_done >= 3; uint64_t h = 1469598103934665603ULL;
        for (auto& e : ctx.hist) if (e.done) { uint64_t v[4] = {(uint64_t)e.kind, (uint64_t)e.a, (uint64_t)e.r, (uint64_t)e.r2}; for (uint64_t x : v) h = (h ^ x) * 1099511628211ULL; }
        out.st.sig_hash = h ^ std::hash<std::string>()(sj->name);
    }
}

static std::string jesc(const std::string& s) { std::string o; for (unsigned char c : s) { if (c == '"' || c == '\\') { o += '\\'; o += (char)c; } else if (c == '\n') o += "\\n"; else if (c < 32) o += ' '; else o += (char)c; } return o; }
static std::string hist_line(const Subject* sj, const Event& e) {
    char b[256]; const char* nm = nullptr; if (sj->opnames) { int n = 0; while (sj->opnames[n]) ++n; if (e.kind >= 0 && e.kind < n) nm = sj->opnames[e.kind]; }
    char kn[32]; if (!nm) { snprintf(kn, sizeof kn, "op%d", e.kind); nm = kn; }
    if (e.done) snprintf(b, sizeof b, "t%d #%d %s(%ld,%ld,%ld) -> %ld,%ld,%ld [%llu,%llu]", e.thread, e.opid, nm, e.a, e.b, e.c, e.r, e.r2, e.r3, (unsigned long long)e.inv, (unsigned long long)e.ret);
    else snprintf(b, sizeof b, "t%d #%d %s(%ld,%ld,%ld) -> pending [%llu,-]", e.thread, e.opid, nm, e.a, e.b, e.c, (unsigned long long)e.inv);
    return b;
}
static Replay make_replay(const Subject* sj, const std::string& prop, int tier, uint64_t runseed) {
    Replay rp; rp.subject = sj->name; rp.prop = prop; rp.seed = runseed; rp.tier = tier;
    g_prop_now = prop; Rng g(runseed); sj->gen(g, rp.prog, tier, prop);
    return rp;
}
static void fill_replay_params(Replay& rp, const dsim::Params& p) { rp.soft_cap = p.soft_cap; rp.hard_cap = p.hard_cap; rp.arena_delay = p.arena_delay; rp.use_arena = p.use_arena ? 1 : 0; }
static void prepare_fatal(const Subject* sj, Replay& rp, const std::string& tag) {
    dsim::Params p = make_params(sj, rp.seed, rp.prog, rp.prop); fill_replay_params(rp, p);
    g_cur_header = render_program(rp); g_unit_tag = tag;
    char b[512]; snprintf(b, sizeof b, "%s/cand-%s-%s-%llu.replay", g_replay_dir.c_str(), rp.prop.c_str(), rp.subject.c_str(), (unsigned long long)rp.seed); g_cur_out = b;
}
static std::string save_violation(const Replay& rp, const RunResult& r) {
    char tail[1400]; snprintf(tail, sizeof tail, "expect %s %llx %llu\ndetail %.1200s\n", r.cls.c_str(), (unsigned long long)r.st.trace_hash, (unsigned long long)r.st.steps, r.detail.c_str());
    write_text(g_cur_out, g_cur_header, "decisions\n" + render_decs(r.decs), tail);
    return g_cur_out;
}
static std::map<std::string, bool> g_warm;
static void warm_up(const Subject* sj, const std::string& prop, int tier) {
    if (g_warm[sj->name]) return; g_warm[sj->name] = true;
    Replay rp = make_replay(sj, prop, tier, 0x5eed); prepare_fatal(sj, rp, "warmup");
    RunResult r; run_one(sj, rp, nullptr, true, false, r);
}

// ------------------------------------------------------------------ worker
static const char* strat_name(int s) { static const char* n[] = {"RW", "PCT", "PRE1", "STALL"}; return s >= 0 && s < 4 ? n[s] : "?"; }
static int worker_main() {
    setvbuf(stdout, nullptr, _IOLBF, 0);
    char line[1024]; uint64_t vseed = 1; if (const char* e = getenv("VERIF_SEED")) vseed = strtoull(e, nullptr, 10);
    int detcheck_every = 25; if (const char* e = getenv("VERIF_DETCHECK")) detcheck_every = atoi(e);
    while (fgets(line, sizeof line, stdin)) {
        char tag[64], sname[128], prop[32]; int tier; unsigned long long first, count; char sigpath[512];
        if (sscanf(line, "U %63s %127s %31s %d %llu %llu %511s", tag, sname, prop, &tier, &first, &count, sigpath) != 7) { if (!strncmp(line, "Q", 1)) break; continue; }
        const Subject* sj = find_subject(sname); if (!sj) { printf("E %s unknown-subject\n", tag); continue; }
        warm_up(sj, prop, tier);
        auto t0 = std::chrono::steady_clock::now();
        uint64_t runs = 0, ok = 0, viol = 0, capped = 0, steps = 0, sw = 0, pre = 0, simns = 0, nontriv = 0, ops = 0, det_chk = 0, det_mis = 0, multi = 0, leaks = 0;
        uint64_t f[8] = {0}; uint64_t strat[4] = {0}; std::map<std::string, long> probes; std::string sample, viol_json; std::vector<uint64_t> sigs;
        for (uint64_t i = 0; i < count; i++) {
            uint64_t rs = run_seed(vseed, prop, sname, first + i);
            Replay rp = make_replay(sj, prop, tier, rs); prepare_fatal(sj, rp, tag); g_cur_index = first + i;
            RunResult r; run_one(sj, rp, nullptr, false, false, r);
            ++runs; steps += r.st.steps; sw += r.st.switches; pre += r.st.preemptions; simns += r.st.sim_ns; ops += (uint64_t)r.ops_done;
            f[0] += r.st.f1; f[1] += r.st.f2_buffered; f[2] += r.st.f3_stall; f[3] += r.st.f6; f[4] += r.st.f7; f[5] += r.st.f8; f[6] += r.st.f2_stale; f[7] += r.st.signals;
            ++strat[r.params.strategy & 3]; if (r.st.soft_capped) ++capped; if (r.st.max_concurrent >= 2) ++multi; leaks += r.st.arena_live_at_end;
            for (auto& p : r.probes) probes[p.first] += p.second;
            if (r.nontrivial) { ++nontriv; sigs.push_back(r.st.sig_hash); }
            bool check_det = (r.cls != "ok") || (detcheck_every > 0 && (first + i) % (uint64_t)detcheck_every == 0);
            if (check_det) {   // replay from the recorded decisions: class and trace hash must match
                RunResult r2; run_one(sj, rp, &r.decs, false, false, r2); ++det_chk;
                if (r2.st.trace_hash != r.st.trace_hash || r2.cls != r.cls) { ++det_mis; printf("N %s %s seed=%llu cls=%s/%s hash=%llx/%llx steps=%llu/%llu\n", tag, sname, (unsigned long long)rs, r.cls.c_str(), r2.cls.c_str(), (unsigned long long)r.st.trace_hash, (unsigned long long)r2.st.trace_hash, (unsigned long long)r.st.steps, (unsigned long long)r2.st.steps); }
            }
            if (r.cls == "ok") ++ok;
            else { ++viol; std::string path = save_violation(rp, r); if (viol_json.size() < 4000) { if (!viol_json.empty()) viol_json += ","; viol_json += "{\"seed\":" + std::to_string(rs) + ",\"cls\":\"" + jesc(r.cls) + "\",\"detail\":\"" + jesc(r.detail) + "\",\"path\":\"" + jesc(path) + "\"}"; } }
            if (sample.empty() && (r.nontrivial || i + 1 == count)) {
                sample = "{\"subject\":\"" + jesc(sname) + "\",\"seed\":" + std::to_string(rs) + ",\"strategy\":\"" + strat_name(r.params.strategy) + "\",\"verdict\":\"" + jesc(r.cls) + "\",\"steps\":" + std::to_string(r.st.steps) + ",\"switches\":" + std::to_string(r.st.switches) + ",\"program\":\"" + jesc(render_program(rp)) + "\",\"history\":[";
                for (size_t k = 0; k < r.hist.size() && k < 40; k++) { if (k) sample += ","; sample += "\"" + jesc(hist_line(sj, r.hist[k])) + "\""; }
                sample += "],\"first_decisions\":\"" + jesc(render_decs(std::vector<dsim::Dec>(r.decs.begin(), r.decs.begin() + (r.decs.size() < 12 ? r.decs.size() : 12)))) + "\"}";
            }
        }
        if (!sigs.empty()) { FILE* sf = fopen(sigpath, "ab"); if (sf) { fwrite(sigs.data(), 8, sigs.size(), sf); fclose(sf); } }
        double wall = std::chrono::duration<double>(std::chrono::steady_clock::now() - t0).count();
        std::string pj; for (auto& p : probes) { if (!pj.empty()) pj += ","; pj += "\"" + jesc(p.first) + "\":" + std::to_string(p.second); }
        printf("R %s {\"subject\":\"%s\",\"runs\":%llu,\"ok\":%llu,\"viol\":%llu,\"soft_capped\":%llu,\"steps\":%llu,\"switches\":%llu,\"preemptions\":%llu,\"sim_ns\":%llu,\"nontrivial\":%llu,\"multi\":%llu,\"ops\":%llu,\"det_checked\":%llu,\"det_mismatch\":%llu,\"arena_live_at_end\":%llu,"
               "\"faults\":{\"F1_weak_cas_fail\":%llu,\"F2_store_buffered\":%llu,\"F2_stale_reads\":%llu,\"F3_stall\":%llu,\"F6_spurious_wake\":%llu,\"F7_signal_delayed\":%llu,\"F8_early_timeout\":%llu,\"signals_delivered\":%llu},"
               "\"strategies\":{\"RW\":%llu,\"PCT\":%llu,\"PRE1\":%llu,\"STALL\":%llu},\"probes\":{%s},\"wall\":%.3f,\"violations\":[%s],\"sample\":%s}\n",
               tag, sname, (unsigned long long)runs, (unsigned long long)ok, (unsigned long long)viol, (unsigned long long)capped, (unsigned long long)steps, (unsigned long long)sw, (unsigned long long)pre, (unsigned long long)simns, (unsigned long long)nontriv, (unsigned long long)multi, (unsigned long long)ops, (unsigned long long)det_chk, (unsigned long long)det_mis, (unsigned long long)leaks,
               (unsigned long long)f[0], (unsigned long long)f[1], (unsigned long long)f[6], (unsigned long long)f[2], (unsigned long long)f[3], (unsigned long long)f[4], (unsigned long long)f[5], (unsigned long long)f[7],
               (unsigned long long)strat[0], (unsigned long long)strat[1], (unsigned long long)strat[2], (unsigned long long)strat[3], pj.c_str(), wall, viol_json.c_str(), sample.empty() ? "null" : sample.c_str());
        fflush(stdout);
    }
    return 0;
}

// ------------------------------------------------------------------ CLI
static int replay_main(const char* path, bool trace) {
    Replay rp; if (!parse_replay(path, rp)) { fprintf(stderr, "cannot read replay %s\n", path); return 2; }
    const Subject* sj = find_subject(rp.subject); if (!sj) { fprintf(stderr, "unknown subject %s\n", rp.subject.c_str()); return 2; }
    g_replay_mode = true;
    { Replay w = make_replay(sj, rp.prop, rp.tier, 0x5eed); g_warm[sj->name] = true; RunResult r; g_cur_header.clear(); run_one(sj, w, nullptr, true, false, r); }
    RunResult r; run_one(sj, rp, rp.has_decs ? &rp.decs : nullptr, false, trace, r);
    printf("RESULT class=%s hash=%llx steps=%llu detail=%s\n", r.cls.c_str(), (unsigned long long)r.st.trace_hash, (unsigned long long)r.st.steps, r.detail.c_str());
    if (trace) for (auto& e : r.hist) printf("H %s\n", hist_line(sj, e).c_str());
    return r.cls == "ok" ? 0 : 1;
}
// fixed program from a replay file, fresh schedule seeds: used by the minimiser when the projected schedule stops failing
static int search_main(const char* path, uint64_t nseeds, const char* outpath, const char* wantcls) {
    Replay rp; if (!parse_replay(path, rp)) return 2;
    const Subject* sj = find_subject(rp.subject); if (!sj) return 2;
    warm_up(sj, rp.prop, rp.tier);
    for (uint64_t i = 0; i < nseeds; i++) {
        Replay q = rp; q.seed = mix64(rp.seed + i * 7919 + 1) >> 1; q.decs.clear();
        prepare_fatal(sj, q, "search"); g_cur_out = outpath;
        RunResult r; run_one(sj, q, nullptr, false, false, r);
        if (r.cls != "ok" && (!wantcls || r.cls == wantcls)) { save_violation(q, r); printf("FOUND seed=%llu class=%s\n", (unsigned long long)q.seed, r.cls.c_str()); return 1; }
    }
    printf("NOTFOUND\n"); return 0;
}
static int single_main(const char* sname, const char* prop, uint64_t index, int tier, bool trace, const char* out) {
    const Subject* sj = find_subject(sname); if (!sj) { fprintf(stderr, "unknown subject\n"); return 2; }
    uint64_t vseed = 1; if (const char* e = getenv("VERIF_SEED")) vseed = strtoull(e, nullptr, 10);
    uint64_t rs = run_seed(vseed, prop, sname, index);
    if (const char* e = getenv("VERIF_RAWSEED")) rs = strtoull(e, nullptr, 10);
    warm_up(sj, prop, tier);
    Replay rp = make_replay(sj, prop, tier, rs); prepare_fatal(sj, rp, "single"); if (out) g_cur_out = out;
    RunResult r; run_one(sj, rp, nullptr, false, trace, r);
    printf("%s", render_program(rp).c_str());
    for (auto& e : r.hist) printf("H %s\n", hist_line(sj, e).c_str());
    for (auto& p : r.probes) printf("P %s %ld\n", p.first.c_str(), p.second);
    printf("RESULT class=%s hash=%llx steps=%llu switches=%llu strategy=%s detail=%s\n", r.cls.c_str(), (unsigned long long)r.st.trace_hash, (unsigned long long)r.st.steps, (unsigned long long)r.st.switches, strat_name(r.params.strategy), r.detail.c_str());
    if (out) save_violation(rp, r);
    return r.cls == "ok" ? 0 : 1;
}

int harness_main(int argc, char** argv) {
    dsim::set_fatal(on_fatal);
    install_crash_handlers();
    if (const char* d = getenv("VERIF_REPLAY_DIR")) g_replay_dir = d;
    if (const char* c = getenv("VERIF_CPU")) { cpu_set_t set; CPU_ZERO(&set); CPU_SET(atoi(c), &set); sched_setaffinity(0, sizeof set, &set); }
    std::vector<std::string> a(argv + 1, argv + argc);
    bool trace = false; for (auto& s : a) if (s == "--trace") trace = true;
    if (a.empty() || a[0] == "--list") { for (auto s : all_subjects()) printf("%s %s\n", s->name, s->props); return 0; }
    if (a[0] == "--components") { for (auto s : all_subjects()) printf("%s\t%s\n", s->name, s->components ? s->components : ""); return 0; }
    if (a[0] == "--worker") return worker_main();
    if (a[0] == "--replay" && a.size() >= 2) return replay_main(a[1].c_str(), trace);
    if (a[0] == "--search" && a.size() >= 4) return search_main(a[1].c_str(), strtoull(a[2].c_str(), nullptr, 10), a[3].c_str(), a.size() >= 5 && a[4] != "--trace" ? a[4].c_str() : nullptr);
    if (a[0] == "--run" && a.size() >= 4) { int tier = 0; const char* out = nullptr; for (size_t i = 4; i + 1 < a.size(); i++) { if (a[i] == "--tier") tier = atoi(a[i + 1].c_str()); if (a[i] == "--out") out = a[i + 1].c_str(); } return single_main(a[1].c_str(), a[2].c_str(), strtoull(a[3].c_str(), nullptr, 10), tier, trace, out); }
    fprintf(stderr, "usage: sim --list | --worker | --replay file [--trace] | --run subject prop index [--tier n] [--out file] | --search file n out [class]\n");
    return 2;
}
} // namespace vh
