// Harness core: programs, histories, subjects, run/replay driver (DESIGN.md §4, §5).
#pragma once
#include <cstdint>
#include <cstdarg>
#include <functional>
#include <map>
#include <string>
#include <vector>
#include "../dsim/dsim.h"

namespace vh {

struct Rng {
    uint64_t s;
    explicit Rng(uint64_t seed) { s = seed * 0x9E3779B97F4A7C15ULL + 0x7F4A7C15ULL; if (!s) s = 1; for (int i = 0; i < 6; i++) next(); }
    uint64_t next() { s ^= s << 13; s ^= s >> 7; s ^= s << 17; return s; }
    int below(int n) { return n <= 1 ? 0 : (int)(next() % (uint64_t)n); }
    int range(int lo, int hi) { return lo + below(hi - lo + 1); }   // inclusive
    bool chance(int permille) { return (int)(next() % 1000) < permille; }
    template <class T> const T& pick(std::initializer_list<T> l) { return *(l.begin() + below((int)l.size())); }
};

struct Op { int id = 0; int kind = 0; long a = 0, b = 0, c = 0; };
struct ThreadProg { int start_after = -1; std::vector<Op> ops; };
struct Program {
    std::vector<std::pair<std::string, long>> knobs;
    std::vector<ThreadProg> threads;
    long knob(const char* name, long dflt = 0) const { for (auto& k : knobs) if (k.first == name) return k.second; return dflt; }
    void set(const char* name, long v) { for (auto& k : knobs) if (k.first == name) { k.second = v; return; } knobs.emplace_back(name, v); }
    int nops() const { int n = 0; for (auto& t : threads) n += (int)t.ops.size(); return n; }
    Op& add(int thread, int kind, long a = 0, long b = 0, long c = 0) { if ((int)threads.size() <= thread) threads.resize(thread + 1); Op o; o.id = next_id++; o.kind = kind; o.a = a; o.b = b; o.c = c; threads[thread].ops.push_back(o); return threads[thread].ops.back(); }
    int next_id = 0;
};

struct Event {   // one operation of the recorded history; stamps are global simulator steps
    int thread = 0, opid = 0, kind = 0; long a = 0, b = 0, c = 0; long r = 0, r2 = 0, r3 = 0; uint64_t inv = 0, ret = 0; bool done = false;
};
struct Violation { std::string cls, detail; };

struct Ctx {
    const Program* prog = nullptr;
    std::string prop;                 // property being checked (a subject may serve several)
    int tier = 0;
    std::vector<Event> hist;
    std::vector<Violation> viol;
    std::map<std::string, long> probes;
    int eager_permille = 0;           // F10
    long aux[8] = {0, 0, 0, 0, 0, 0, 0, 0};   // subject-defined values passed from run() to check()
    std::vector<int> client_tid;      // simulated thread id of client i
    void fail(const char* cls, const char* fmt, ...) __attribute__((format(printf, 3, 4)));
    int begin_op(int thread, const Op& op);              // records invocation; returns history index
    void end_op(int idx, long r = 0, long r2 = 0, long r3 = 0);
    void probe(const char* name, long n = 1);
    // Runs the client threads of the program concurrently: per thread begin(i), then op(i, Op) for each op, then end(i).
    void run_clients(const std::function<void(int)>& begin, const std::function<void(int, const Op&)>& op, const std::function<void(int)>& end);
};

// F10 (eager reclamation) in container runs: the harness-decided HP/DHP pass runs as one indivisible step unless a subject opts out.
// A pass that can be pre-empted between two hazard slots of one thread misses a pointer that the thread copies from one guard to
// another meanwhile (known finding, DESIGN.md 9.2); the library's own traversals do such copies (MichaelList, LazyList, skip list,
// Ellen tree, BasketQueue), after which they touch a freed node once, fail a validation and retry.  That known defect is reported
// where it is a property matter (C19 iterators, which keep pre-emptible passes and classify it); everywhere else it would only drown
// the use-after-free oracle.  The scan strategies themselves are explored with full pre-emption by the SMR exerciser (C01-C03).
extern bool g_atomic_eager_pass;   // default true; defined in harness/core.cpp
struct EagerPass { bool on; EagerPass() : on(g_atomic_eager_pass) { if (on) dsim::uninterruptible(true); } ~EagerPass() { if (on) dsim::uninterruptible(false); } };

struct Subject {
    const char* name;
    const char* props;                // comma separated property ids served, e.g. "C01,C03"
    void (*gen)(Rng&, Program&, int tier, const std::string& prop);
    void (*run)(Ctx&);                // on simulated thread 0
    void (*check)(Ctx&);              // on the host after the run (history oracles); may be null
    void (*tune)(dsim::Params&, Rng&, const Program&, const std::string& prop);   // may be null: adjust fault mix
    const char* const* opnames;       // for printing; may be null
    const char* components;           // which parts are real code / simulated stand-ins
};
void register_subject(const Subject*);
struct Registrar { explicit Registrar(const Subject* s) { register_subject(s); } };
const Subject* find_subject(const std::string& name);
const std::vector<const Subject*>& all_subjects();

const std::string& current_prop();         // property id of the run being generated / executed (for prop-specific program shapes)
int harness_main(int argc, char** argv);   // CLI: --list | --worker | --replay f | --run ...

} // namespace vh
