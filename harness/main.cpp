#include <cds/init.h>
#include "core.h"
int main(int argc, char** argv) {
    cds::Initialize();
    int rc = vh::harness_main(argc, argv);
    fflush(stdout);
    _exit(rc);   // skip static destructors: nothing to tear down, and simulated state may be mid-run after a fatal verdict
}
