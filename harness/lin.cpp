// linearizability checker (filled in later)
