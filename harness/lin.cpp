#include "lin.h"
#include <cstdio>
namespace vh {
std::string describe_history(const std::vector<Event>& h, const char* const* opnames, size_t max) {
    std::string s; char b[160]; size_t n = 0;
    for (auto& e : h) {
        if (n++ >= max) { s += " ..."; break; }
        const char* nm = "op"; if (opnames) { int k = 0; while (opnames[k]) ++k; if (e.kind >= 0 && e.kind < k) nm = opnames[e.kind]; }
        snprintf(b, sizeof b, " [t%d %s(%ld,%ld)->%ld,%ld,%ld @%llu-%llu]", e.thread, nm, e.a, e.b, e.r, e.r2, e.r3, (unsigned long long)e.inv, (unsigned long long)e.ret);
        s += b;
    }
    return s;
}
}
