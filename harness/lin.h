// Linearizability checking of recorded histories against small sequential reference models
// (Wing & Gong search with memoisation on (set of linearised ops, model state), cf. Lowe 2017).
// Time base: the simulator's global step counter.  a precedes b  iff  a.ret < b.inv.
#pragma once
#include <algorithm>
#include <cstdint>
#include <deque>
#include <map>
#include <set>
#include <string>
#include <unordered_set>
#include <vector>
#include "core.h"

namespace vh {

struct LinResult { bool ok = true; bool inconclusive = false; long nodes = 0; };

// Model concept: struct M { typedef ... State; bool step(State&, const Event&) const; void key(const State&, std::string&) const; };
template <class M>
class LinChecker {
public:
    LinChecker(const M& m, const std::vector<Event>& h, long node_cap = 400000) : m_(m), cap_(node_cap) { for (auto& e : h) if (e.done) ops_.push_back(e); }
    LinResult check(const typename M::State& init) {
        LinResult r;
        if (ops_.size() > 64) { r.inconclusive = true; return r; }
        typename M::State s = init;
        full_ = ops_.size() == 64 ? ~0ULL : ((1ULL << ops_.size()) - 1);
        r.ok = dfs(0, s); r.nodes = nodes_; r.inconclusive = over_;
        if (over_) r.ok = true;
        return r;
    }
private:
    bool dfs(uint64_t done, typename M::State& st) {
        if (done == full_) return true;
        if (++nodes_ > cap_) { over_ = true; return true; }
        std::string k; k.assign((const char*)&done, sizeof done); m_.key(st, k);
        if (!seen_.insert(k).second) return false;
        uint64_t minret = ~0ULL; size_t n = ops_.size();
        for (size_t i = 0; i < n; i++) if (!(done >> i & 1) && ops_[i].ret < minret) minret = ops_[i].ret;
        for (size_t i = 0; i < n; i++) {
            if (done >> i & 1) continue;
            if (ops_[i].inv > minret) continue;
            typename M::State s2 = st;
            if (!m_.step(s2, ops_[i])) continue;
            if (dfs(done | (1ULL << i), s2)) return true;
            if (over_) return true;
        }
        return false;
    }
    const M& m_; long cap_; std::vector<Event> ops_; uint64_t full_ = 0; long nodes_ = 0; bool over_ = false;
    std::unordered_set<std::string> seen_;
};

// ---- sequence models.  Event fields: kind, a = value pushed; r = success (0/1), r2 = value popped.
struct SeqModel {
    enum Kind { FIFO, LIFO, DEQUE, PQMAX, BAG };
    enum { PUSH = 0, POP = 1, PUSH_FRONT = 2, POP_BACK = 3 };   // DEQUE: PUSH = push_back, POP = pop_front
    Kind kind; long capacity;         // capacity < 0: unbounded
    bool pop_empty_unconstrained;     // BAG for MSPriorityQueue mixed histories
    long prio_div;                    // PQMAX: priority(v) = v / prio_div
    SeqModel(Kind k, long cap = -1, bool peu = false, long pd = 1000) : kind(k), capacity(cap), pop_empty_unconstrained(peu), prio_div(pd) {}
    typedef std::deque<long> State;
    void key(const State& s, std::string& k) const {
        if (kind == PQMAX || kind == BAG) { State t = s; std::sort(t.begin(), t.end()); for (long v : t) k.append((const char*)&v, sizeof v); }
        else for (long v : s) k.append((const char*)&v, sizeof v);
    }
    bool step(State& s, const Event& e) const {
        bool push = e.kind == PUSH || e.kind == PUSH_FRONT;
        if (push) {
            bool full = capacity >= 0 && (long)s.size() >= capacity;
            if (e.r) { if (full) return false; if (e.kind == PUSH_FRONT) s.push_front(e.a); else s.push_back(e.a); return true; }
            return full;   // a failed push needs a full container
        }
        if (!e.r) return s.empty() || pop_empty_unconstrained;
        if (s.empty()) return false;
        switch (kind) {
        case FIFO: if (s.front() != e.r2) return false; s.pop_front(); return true;
        case LIFO: if (s.back() != e.r2) return false; s.pop_back(); return true;
        case DEQUE: if (e.kind == POP) { if (s.front() != e.r2) return false; s.pop_front(); } else { if (s.back() != e.r2) return false; s.pop_back(); } return true;
        case PQMAX: { long mx = -(1L << 60); for (long v : s) mx = std::max(mx, v / prio_div); auto it = std::find(s.begin(), s.end(), e.r2); if (it == s.end() || e.r2 / prio_div != mx) return false; s.erase(it); return true; }
        case BAG: { auto it = std::find(s.begin(), s.end(), e.r2); if (it == s.end()) return false; s.erase(it); return true; }
        }
        return false;
    }
};

// ---- key -> instance map model.  State: sorted vector of (key, instance id).
// Event: kind (MapModel::Kind), a = key, b = new instance id (insert/update/emplace), c = flags;
//        r = success, r2 = instance observed / extracted / created (-1 none), r3 = "inserted" flag of update.
struct MapModel {
    enum Kind { INSERT = 0, ERASE = 1, CONTAINS = 2, FIND = 3, UPDATE = 4, UPSERT_NOINS = 5, EXTRACT = 6, GET = 7, EXTRACT_MIN = 8, EXTRACT_MAX = 9, CLEAR = 10, NKINDS };
    bool update_replaces;     // update() on an existing key replaces the element instance (IterableList, Feldman) instead of calling the functor on it
    bool check_instance;      // instance ids are observable for this subject
    explicit MapModel(bool repl = false, bool inst = true) : update_replaces(repl), check_instance(inst) {}
    typedef std::vector<std::pair<long, long>> State;
    void key(const State& s, std::string& k) const { for (auto& p : s) { k.append((const char*)&p.first, sizeof(long)); k.append((const char*)&p.second, sizeof(long)); } }
    static State::iterator find(State& s, long key) { for (auto it = s.begin(); it != s.end(); ++it) if (it->first == key) return it; return s.end(); }
    static void put(State& s, long key, long inst) { auto it = s.begin(); while (it != s.end() && it->first < key) ++it; s.insert(it, std::make_pair(key, inst)); }
    // seen < 0: the operation did not report an instance; seen == 0: a key-value container showed the default-constructed
    // mapped value of an element whose creating functor has not run yet (documented: functors run after linking, unsynchronised)
    bool inst_ok(long seen, long model) const { return !check_instance || seen <= 0 || seen == model; }
    bool step(State& s, const Event& e) const {
        auto it = find(s, e.a); bool present = it != s.end();
        switch (e.kind) {
        case CLEAR: s.clear(); return true;
        case INSERT: if (e.r) { if (present) return false; put(s, e.a, e.b); return true; } return present;
        case ERASE: case EXTRACT: if (e.r) { if (!present || !inst_ok(e.r2, it->second)) return false; s.erase(it); return true; } return !present;
        case CONTAINS: return (e.r != 0) == present;
        case FIND: case GET: if (e.r) return present && inst_ok(e.r2, it->second); return !present;
        case UPDATE:   // allow insert
            if (!e.r) return false;   // update with insertion allowed always succeeds
            if (e.r3) { if (present) return false; put(s, e.a, e.b); return true; }
            if (!present) return false;
            if (update_replaces) { it->second = e.b; return true; }
            return inst_ok(e.r2, it->second);
        case UPSERT_NOINS:
            if (e.r) { if (!present || e.r3) return false; if (update_replaces) { it->second = e.b; return true; } return inst_ok(e.r2, it->second); }
            return !present;
        case EXTRACT_MIN: case EXTRACT_MAX:   // relaxed statement: a successful extract is an erase of the returned key; emptiness handled by the interval oracle
            if (e.r) { auto jt = find(s, e.r3); if (jt == s.end() || !inst_ok(e.r2, jt->second)) return false; s.erase(jt); return true; }
            return true;
        }
        return false;
    }
};

std::string describe_history(const std::vector<Event>& h, const char* const* opnames, size_t max = 40);

} // namespace vh
